(* GenEqPyrtlSwitch.v — the statements that amaranth/sim/_pyrtl.py _Compiler._emit_switch emits (match block or
   if/elif chain), read symbolically by translator/unit_pyrtl_switch.py (coq/Gen/PyRtlSwitchGen.v) as "which case's
   handler runs", select on ALL inputs the case that Model/PyRTL.v rtl_switch selects; and on_SwitchValue's result
   variable equals the ESwitch case of eval_rtl.  Only guard: _USE_PATTERN_MATCHING = true (Python >= 3.10; the
   translator refuses to run otherwise). *)
From Coq Require Import ZArith List Bool Lia.
From V.Model Require Import Bits Shape Ast Denote PyRTL.
From V.Gen Require PyRtlSwitchGen.
Import ListNotations.
Open Scope Z_scope.

Module G := PyRtlSwitchGen.

Lemma gen_sw_h_sign_eq v s : G.h_sign v s = py_sign v s.
Proof. unfold G.h_sign, py_sign. destruct (Z.land v s =? 0); reflexivity. Qed.

(* ---------- the use_match loop ---------- *)
Lemma use_match_inner (l : list pattern) b :
  fold_left (fun (um : bool) (p : pattern) =>
               if existsb (fun x => match x with None => true | Some _ => false end) p then false else um) l b
  = b && negb (existsb has_dash l).
Proof.
  revert b. induction l as [|p l IH]; intro b; cbn [fold_left existsb].
  - rewrite andb_true_r. reflexivity.
  - rewrite IH. change (has_dash p) with (existsb (fun x => match x with None => true | Some _ => false end) p).
    destruct (existsb _ p); destruct b; reflexivity.
Qed.

Lemma gen_use_match_acc {A} (cs : list (option (list pattern) * A)) b :
  G.g_use_match b cs = b && use_match (map fst cs).
Proof.
  unfold G.g_use_match, use_match. revert b.
  induction cs as [|[ps a] cs IH]; intro b; cbn [fold_left map forallb fst].
  - rewrite andb_true_r. reflexivity.
  - rewrite IH. destruct ps as [l|].
    + rewrite use_match_inner. rewrite andb_assoc. reflexivity.
    + reflexivity.
Qed.

Lemma gen_use_match_eq {A} (cs : list (option (list pattern) * A)) :
  G.g_use_match true cs = use_match (map fst cs).
Proof. rewrite gen_use_match_acc. reflexivity. Qed.

(* ---------- int("".join(...), 2) ---------- *)
Lemma gen_int_value_acc (p : pattern) acc :
  fold_left (fun a (b : option bool) => 2 * a + match b with None => 0 | Some c => Z.b2z c end) p acc
  = pat_value_acc p acc.
Proof.
  revert acc. induction p as [|[[|]|] p IH]; intro acc; cbn [fold_left pat_value_acc Z.b2z]; rewrite ?IH;
    try reflexivity; f_equal; lia.
Qed.

Lemma gen_int_mask_acc (p : pattern) acc :
  fold_left (fun a (b : option bool) => 2 * a + match b with None => 0 | Some _ => 1 end) p acc
  = pat_mask_acc p acc.
Proof.
  revert acc. induction p as [|[c|] p IH]; intro acc; cbn [fold_left pat_mask_acc]; rewrite ?IH;
    try reflexivity; f_equal; lia.
Qed.

Lemma gen_int_or0 (p : pattern) :
  match p with [] => 0 | _ :: _ =>
    fold_left (fun a (b : option bool) => 2 * a + match b with None => 0 | Some c => Z.b2z c end) p 0 end
  = pat_value p.
Proof. destruct p; [reflexivity|]. apply gen_int_value_acc. Qed.

(* ---------- match form ---------- *)
Lemma gen_match_form_eq {A} (f : option (list pattern) * A -> Z) t (cs : list (option (list pattern) * A)) :
  match G.g_match_form t cs with None => 0 | Some c => f c end
  = rtl_switch true t (map (fun c => (fst c, f c)) cs).
Proof.
  induction cs as [|[ps a] cs IH]; cbn [G.g_match_form map rtl_switch]; [reflexivity|].
  cbn [fst rtl_case_match]. destruct ps as [l|]; [|reflexivity].
  destruct l as [|p l].
  - cbn [andb existsb]. exact IH.
  - rewrite <- IH. cbv beta iota. cbn [rtl_case_match]. unfold pattern in *.
    assert (E : existsb (fun q : list (option bool) => t =? 0 * 2 ^ Z.of_nat (length q) + pat_value q) (p :: l)
                = existsb (fun q : list (option bool) => pat_value q =? t) (p :: l)).
    { generalize (p :: l). intro m. induction m as [|q m IHm]; [reflexivity|].
      cbn [existsb]. rewrite IHm. f_equal. rewrite Z.mul_0_l, Z.add_0_l. apply Z.eqb_sym. }
    rewrite E. clear E. destruct (existsb _ (p :: l)); reflexivity.
Qed.

(* ---------- if / elif form ---------- *)
Lemma fold_orb_map {B} (g : B -> bool) l : fold_right orb false (map g l) = existsb g l.
Proof. induction l; cbn; congruence. Qed.

Lemma gen_if_form_eq {A} (f : option (list pattern) * A -> Z) t (cs : list (option (list pattern) * A)) i :
  match G.g_if_form t cs i with None => 0 | Some c => f c end
  = rtl_switch false t (map (fun c => (fst c, f c)) cs).
Proof.
  revert i. induction cs as [|[ps a] cs IH]; intro i; cbn [G.g_if_form map rtl_switch]; [reflexivity|].
  cbn [fst rtl_case_match]. rewrite <- (IH (S i)).
  destruct ps as [l|].
  - destruct l as [|p l].
    + destruct (Nat.eqb i 0); reflexivity.
    + cbv beta iota. cbn [rtl_case_match]. rewrite fold_orb_map. unfold pattern in *.
      assert (E : forall m : list (list (option bool)),
        existsb (fun q : list (option bool) =>
          if existsb (fun b => match b with None => true | Some _ => false end) q
          then fold_left (fun a (b : option bool) => 2 * a + match b with None => 0 | Some c0 => Z.b2z c0 end) q 0
               =? Z.land (fold_left (fun a (b : option bool) => 2 * a + match b with None => 0 | Some _ => 1 end) q 0) t
          else match q with [] => 0 | _ :: _ =>
                 fold_left (fun a (b : option bool) => 2 * a + match b with None => 0 | Some c0 => Z.b2z c0 end) q 0 end
               =? t) m
        = existsb (fun q : list (option bool) => if has_dash q then pat_value q =? Z.land (pat_mask q) t else pat_value q =? t) m).
      { induction m as [|q m IHm]; [reflexivity|]. cbn [existsb]. rewrite IHm. f_equal.
        rewrite gen_int_or0, gen_int_value_acc, gen_int_mask_acc. reflexivity. }
      rewrite E. clear E. destruct (Nat.eqb i 0); destruct (existsb _ (p :: l)); reflexivity.
  - destruct (Nat.eqb i 0); reflexivity.
Qed.

(* ---------- _emit_switch ---------- *)
Lemma gen_emit_switch_eq {A} (f : option (list pattern) * A -> Z) t (cs : list (option (list pattern) * A)) :
  match G.g_emit_switch true t cs with None => 0 | Some c => f c end
  = rtl_switch (use_match (map fst cs)) t (map (fun c => (fst c, f c)) cs).
Proof.
  unfold G.g_emit_switch. destruct cs as [|c cs]; [reflexivity|].
  rewrite gen_use_match_eq. destruct (use_match (map fst (c :: cs))).
  - apply gen_match_form_eq.
  - apply gen_if_form_eq.
Qed.

(* ---------- on_SwitchValue ---------- *)
Lemma gen_switch_value_eq (self_ rrhs_ : expr -> Z) test cases :
  G.g_switch_value self_ rrhs_ test cases
  = rtl_switch (use_match (map fst cases)) (rmask (ewidth test) (rrhs_ test))
               (map (fun c => (fst c, rsign (shape_of (snd c)) (self_ (snd c)))) cases).
Proof.
  unfold G.g_switch_value. cbv zeta.
  rewrite <- (gen_emit_switch_eq (fun c => rsign (shape_of (snd c)) (self_ (snd c)))).
  unfold rmask, ewidth.
  destruct (G.g_emit_switch true _ cases) as [[ps e]|]; [|reflexivity].
  cbn [snd]. unfold rsign, rmask. rewrite gen_sw_h_sign_eq. reflexivity.
Qed.

Lemma gen_switch_node_eq en test cases :
  eval_rtl en (ESwitch test cases) = G.g_switch_value (eval_rtl en) (eval_rtl en) test cases.
Proof. rewrite gen_switch_value_eq. reflexivity. Qed.

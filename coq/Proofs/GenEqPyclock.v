(* GenEqPyclock.v — the definitions regenerated from /repo/amaranth/sim/_pyclock.py (and the default mask of
   _PySignalState.update in sim/pysim.py) by translator/unit_pyclock.py (coq/Gen/PyClockGen.v) equal the hand-written
   clock process of Model/Engine.v (clock_run, clock_proc, clock_pstate), for all process objects and slot values.
   A change of the translated source that is not semantics-preserving breaks one of these lemmas.

   Abstraction: a PyClockProcess object is the model's process state  PS runnable [initial] timer  (abs_pstate);
   the calls the method makes into the shared engine state come back as a list of effects in program order:
   the update() calls are the model's writes (eff_writes), the interval of the last set_delay_waker() call is the
   model's r_delay (eff_delay); the waker handed to the timeline is the model's `ps_run || due` of ps_fire (it sets
   `runnable` and nothing else).  No guards: the lemmas hold for every object, slot heap and time.

   Second part: hdl/_time.py (unit tables, Period.__init__, .femtoseconds, Period / real number) and the tail of
   Simulator.add_clock in sim/core.py equal Engine.period_fs / round_half_even / default_phase.  A Python real number
   is the exact rational of the prelude type `real`; the model's units are numbered (unit_name).  Guard: a frequency
   unit needs a value > 0 (for v <= 0 the source raises: gen_period_init_nonpositive_frequency, so the real code never
   builds such a Period). *)
From Coq Require Import ZArith List Bool Lia String.
From V.Model Require Import Bits Engine.
From V.Gen Require PyClockGen.
Import ListNotations.
Open Scope Z_scope.
Module G := PyClockGen.

(* ------------------------------------------------------------------ abstraction *)
Definition abs_local (self : G.PyClockProcess) : list Z := [b2z (G.PyClockProcess_initial self)].

Definition eff_writes (effs : list G.effect) : list write :=
  flat_map (fun e => match e with G.Eff_update s v m => [W s v m] | G.Eff_set_delay_waker _ _ => [] end) effs.

Definition eff_delay (effs : list G.effect) : option Z :=
  fold_left (fun acc e => match e with G.Eff_set_delay_waker d _ => Some d | G.Eff_update _ _ _ => acc end) effs None.

Definition eff_wakers (effs : list G.effect) : list (G.PyClockProcess -> G.PyClockProcess) :=
  flat_map (fun e => match e with G.Eff_set_delay_waker _ w => [w] | G.Eff_update _ _ _ => [] end) effs.

Definition abs_pres (r : G.PyClockProcess * list G.effect) : pres :=
  PR (abs_local (fst r)) (eff_writes (snd r)) (eff_delay (snd r)).

Definition abs_pstate (self : G.PyClockProcess) (timer : option Z) : pstate :=
  PS (G.PyClockProcess_runnable self) (abs_local self) timer t_none [] false.

(* `self.runnable = True` and nothing else *)
Definition wake (p : G.PyClockProcess) : G.PyClockProcess :=
  G.Build_PyClockProcess (G.PyClockProcess_slot p) (G.PyClockProcess_phase p) (G.PyClockProcess_period p) true
                         (G.PyClockProcess_critical p) (G.PyClockProcess_initial p).

Definition slots_of (cu : list Z) : nat -> Z := fun i => nth i cu 0.

(* ------------------------------------------------------------------ PyClockProcess.run = clock_run *)
Lemma gen_clock_run_eq : forall (self : G.PyClockProcess) (cu : list Z),
  abs_pres (G.PyClockProcess_run (slots_of cu) self) =
  clock_run (G.PyClockProcess_slot self) (G.PyClockProcess_phase self) (G.PyClockProcess_period self) (abs_local self) cu.
Proof.
  intros [slot phase period runnable critical initial] cu.
  destruct initial; unfold abs_pres, abs_local, slots_of; cbn.
  - reflexivity.
  - rewrite negb_involutive. destruct (nth slot cu 0 =? 0); reflexivity.
Qed.

(* run() leaves the configuration alone, clears `runnable`, and the only waker it registers sets `runnable` again *)
Lemma gen_clock_run_frame : forall (self : G.PyClockProcess) (cur : nat -> Z),
  let r := G.PyClockProcess_run cur self in
  G.PyClockProcess_slot (fst r) = G.PyClockProcess_slot self /\
  G.PyClockProcess_phase (fst r) = G.PyClockProcess_phase self /\
  G.PyClockProcess_period (fst r) = G.PyClockProcess_period self /\
  G.PyClockProcess_critical (fst r) = G.PyClockProcess_critical self /\
  G.PyClockProcess_runnable (fst r) = false /\
  G.PyClockProcess_initial (fst r) = false /\
  exists w, eff_wakers (snd r) = [w] /\ forall p, w p = wake p.
Proof.
  intros [slot phase period runnable critical initial] cur.
  destruct initial; cbn; repeat split; eexists; split; try reflexivity; intros [? ? ? ? ? ?]; reflexivity.
Qed.

(* one scheduled run of the clock process in the engine model (proc_step of clock_proc) *)
Lemma gen_clock_proc_step_eq : forall (self : G.PyClockProcess) (now : Z) (timer : option Z) (cu nx : list Z),
  let r := G.PyClockProcess_run (slots_of cu) self in
  exists d, eff_delay (snd r) = Some d /\
  proc_step (clock_proc (G.PyClockProcess_slot self) (G.PyClockProcess_phase self) (G.PyClockProcess_period self))
            now (abs_pstate self timer) cu nx =
  (abs_pstate (fst r) (Some (now + d)), eff_writes (snd r)).
Proof.
  intros [slot phase period runnable critical initial] now timer cu nx.
  destruct initial; unfold slots_of; cbn.
  - eexists; split; reflexivity.
  - eexists; split; [reflexivity|]. unfold proc_step; cbn.
    rewrite negb_involutive. destruct (nth slot cu 0 =? 0); reflexivity.
Qed.

(* the waker fired by the timeline is ps_fire of the model when the deadline is due *)
Lemma gen_clock_waker_eq : forall (p : G.PyClockProcess) (D : Z),
  abs_pstate (wake p) None = ps_fire D (abs_pstate p (Some D)).
Proof.
  intros [slot phase period runnable critical initial] D.
  unfold abs_pstate, ps_fire, wake, abs_local; cbn. rewrite Z.eqb_refl, orb_true_r. reflexivity.
Qed.

(* ------------------------------------------------------------------ __init__ / reset = clock_pstate *)
Lemma gen_clock_init_eq : forall (slot : nat) (phase period : Z),
  let p := G.PyClockProcess_init slot phase period in
  abs_pstate p None = clock_pstate /\
  G.PyClockProcess_slot p = slot /\ G.PyClockProcess_phase p = phase /\ G.PyClockProcess_period p = period /\
  G.PyClockProcess_critical p = false.
Proof. intros. repeat split. Qed.

Lemma gen_clock_reset_eq : forall (self : G.PyClockProcess),
  G.PyClockProcess_reset self =
  G.PyClockProcess_init (G.PyClockProcess_slot self) (G.PyClockProcess_phase self) (G.PyClockProcess_period self).
Proof. intros [slot phase period runnable critical initial]. reflexivity. Qed.

(* ================================================================== Period (hdl/_time.py) and Simulator.add_clock *)
(* A Python real is the exact rational real_num / real_den; an int v is real_of_Z v.  The model takes the unit as a
   number (Engine.period_fs): 0 s, 1 ms, 2 us, 3 ns, 4 ps, 5 fs, 6 Hz, 7 kHz, 8 MHz, 9 GHz. *)
Local Open Scope string_scope.
Definition unit_name (u : nat) : string :=
  match u with
  | 0%nat => "s" | 1%nat => "ms" | 2%nat => "us" | 3%nat => "ns" | 4%nat => "ps" | 5%nat => "fs"
  | 6%nat => "Hz" | 7%nat => "kHz" | 8%nat => "MHz" | _ => "GHz"
  end.
Local Close Scope string_scope.

Lemma py_round_eq : forall n d, G.py_round (G.Real n d) = round_half_even n d.
Proof. reflexivity. Qed.

Lemma py_round_int : forall n, G.py_round (G.Real n 1) = n.
Proof.
  intros n. unfold G.py_round; cbn [G.real_num G.real_den]. rewrite Z.div_1_r, Z.mod_1_r. reflexivity.
Qed.

Lemma period_init_time : forall unit k v,
  G.py_dict_get G.TIME_UNITS unit = Some k ->
  G.Period_init [(unit, G.real_of_Z v)] = Some (G.Build_Period (v * k)).
Proof.
  intros unit k v H. unfold G.Period_init, G.py_dict_mem. rewrite H.
  cbn [G.py_is_empty List.length Z.of_nat]. change (1 <? Z.pos (Pos.of_succ_nat 0)) with false. cbv iota.
  unfold G.real_mul_Z, G.real_of_Z; cbn [G.real_num G.real_den]. rewrite py_round_int. reflexivity.
Qed.

Lemma period_init_freq : forall unit k v,
  G.py_dict_get G.TIME_UNITS unit = None -> G.py_dict_get G.FREQUENCY_UNITS unit = Some k -> 0 < v ->
  G.Period_init [(unit, G.real_of_Z v)] = Some (G.Build_Period (round_half_even k v)).
Proof.
  intros unit k v H0 H Hv. unfold G.Period_init, G.py_dict_mem. rewrite H0, H.
  cbn [G.py_is_empty List.length Z.of_nat]. change (1 <? Z.pos (Pos.of_succ_nat 0)) with false. cbv iota.
  unfold G.real_eqb_Z, G.real_ltb_Z, G.py_div_Z_real, G.real_of_Z; cbn [G.real_num G.real_den].
  replace (v =? 0 * 1) with false by (symmetry; apply Z.eqb_neq; lia).
  replace (v <? 0 * 1) with false by (symmetry; apply Z.ltb_ge; lia).
  replace (v =? 0) with false by (symmetry; apply Z.eqb_neq; lia).
  replace (v <? 0) with false by (symmetry; apply Z.ltb_ge; lia).
  cbv iota. rewrite Z.mul_1_r, py_round_eq. reflexivity.
Qed.

Lemma period_init_freq_raises : forall unit v,
  G.py_dict_get G.TIME_UNITS unit = None -> v <= 0 -> G.Period_init [(unit, G.real_of_Z v)] = None.
Proof.
  intros unit v H0 Hv. unfold G.Period_init, G.py_dict_mem. rewrite H0.
  cbn [G.py_is_empty List.length Z.of_nat]. change (1 <? Z.pos (Pos.of_succ_nat 0)) with false. cbv iota.
  destruct (G.py_dict_get G.FREQUENCY_UNITS unit); [|reflexivity].
  unfold G.real_eqb_Z, G.real_ltb_Z, G.real_of_Z; cbn [G.real_num G.real_den].
  destruct (v =? 0 * 1) eqn:E; [reflexivity|].
  replace (v <? 0 * 1) with true by (symmetry; apply Z.ltb_lt; apply Z.eqb_neq in E; lia). reflexivity.
Qed.

(* Period(unit=v) for an integer v: time units for every v, frequency units for v > 0 (the source raises
   ZeroDivisionError / ValueError for v <= 0: gen_period_init_nonpositive_frequency) *)
Lemma gen_period_init_eq : forall (u : nat) (v : Z),
  (u <= 9)%nat -> ((6 <= u)%nat -> 0 < v) ->
  G.Period_init [(unit_name u, G.real_of_Z v)] = Some (G.Build_Period (period_fs u v)).
Proof.
  intros u v Hu Hv.
  do 6 (destruct u as [|u]; [erewrite period_init_time by reflexivity; unfold period_fs; rewrite ?Z.mul_1_r; reflexivity|]).
  assert (0 < v) by (apply Hv; lia).
  do 4 (destruct u as [|u]; [apply period_init_freq; [reflexivity|reflexivity|assumption]|]).
  lia.
Qed.

Lemma gen_period_init_nonpositive_frequency : forall (u : nat) (v : Z),
  (6 <= u)%nat -> v <= 0 -> G.Period_init [(unit_name u, G.real_of_Z v)] = None.
Proof.
  intros u v Hu Hv. do 6 (destruct u as [|u]; [lia|]).
  do 3 (destruct u as [|u]; [apply period_init_freq_raises; [reflexivity|assumption]|]).
  apply period_init_freq_raises; [reflexivity|assumption].
Qed.

(* Period() is zero; more than one keyword raises TypeError *)
Lemma gen_period_init_empty_eq : G.Period_init [] = Some (G.Build_Period 0).
Proof. reflexivity. Qed.

Lemma gen_period_init_two_raises : forall a b l, G.Period_init (a :: b :: l) = None.
Proof.
  intros a b l. unfold G.Period_init. cbn [G.py_is_empty List.length].
  replace (1 <? Z.of_nat (S (S (List.length l)))) with true by (symmetry; apply Z.ltb_lt; lia). reflexivity.
Qed.

Lemma gen_period_femtoseconds_eq : forall p, G.Period_femtoseconds p = Some (G.Period__femtoseconds p).
Proof. reflexivity. Qed.

(* round-half-even of p/2 is the model's default_phase *)
Lemma round_half_default_phase : forall p, round_half_even p 2 = default_phase p.
Proof.
  intros p. unfold round_half_even, default_phase.
  destruct (Z.even p) eqn:E.
  - apply Z.even_spec in E. destruct E as [k ->].
    replace ((2 * k) mod 2) with 0 by (rewrite Z.mul_comm, Z.mod_mul by lia; reflexivity). reflexivity.
  - assert (O : Z.odd p = true) by (rewrite <- Z.negb_even, E; reflexivity).
    apply Z.odd_spec in O. destruct O as [k ->].
    replace ((2 * k + 1) mod 2) with 1 by (rewrite Z.add_comm, Z.mul_comm, Z.mod_add by lia; reflexivity).
    reflexivity.
Qed.

(* period / 2 (Period.__truediv__ with a real number, here the int 2) *)
Lemma gen_period_half_eq : forall p,
  G.Period_truediv_real (G.Build_Period p) (G.real_of_Z 2) = Some (G.Build_Period (default_phase p)).
Proof.
  intros p. unfold G.Period_truediv_real, G.py_div_Z_real, G.real_of_Z; cbn [G.real_num G.real_den G.Period__femtoseconds].
  change (2 =? 0) with false. change (2 <? 0) with false. cbv iota.
  unfold G.Period_init, G.py_dict_mem.
  cbn [G.py_is_empty List.length Z.of_nat]. change (1 <? Z.pos (Pos.of_succ_nat 0)) with false. cbv iota.
  change (G.py_dict_get G.TIME_UNITS "fs"%string) with (Some 1). cbv iota.
  unfold G.real_mul_Z; cbn [G.real_num G.real_den]. rewrite !Z.mul_1_r, py_round_eq, round_half_default_phase. reflexivity.
Qed.

(* Simulator.add_clock: the (phase, period) femtoseconds handed to add_clock_process -> PyClockProcess *)
Lemma gen_add_clock_default_eq : forall p,
  G.Simulator_add_clock_args (G.Build_Period p) None = Some (default_phase p, p).
Proof. intros p. unfold G.Simulator_add_clock_args. rewrite gen_period_half_eq. reflexivity. Qed.

Lemma gen_add_clock_phase_eq : forall p ph,
  G.Simulator_add_clock_args (G.Build_Period p) (Some (G.Build_Period ph)) = Some (ph, p).
Proof. reflexivity. Qed.

(* ExprP.v — C01/C05: shapes never overflow; the compiled RTL expression and the testbench
   evaluator both compute the Python-integer denotation, at every nesting depth. *)
From Coq Require Import ZArith List Bool Lia ZifyBool.
From V.Model Require Import Bits Shape Ast Denote PyRTL PyEval.
From V.Proofs Require Import BitsP ShapeP.
Import ListNotations.
Open Scope Z_scope.

(* ---------- helpers of the generated code ---------- *)
Lemma rmask_mask w raw : 0 <= w -> rmask w raw = mask w raw.
Proof. intros; unfold rmask. rewrite Z.land_comm. apply mask_land; auto. Qed.

Lemma shiftl_m1 n : 0 <= n -> Z.shiftl (-1) n = - 2 ^ n.
Proof. intros; rewrite Z.shiftl_mul_pow2 by auto. lia. Qed.

Lemma py_sign_sext w raw : 1 <= w ->
  py_sign (mask w raw) (Z.shiftl (-1) (w - 1)) = sext w raw.
Proof.
  intros Hw. rewrite shiftl_m1 by lia. unfold py_sign.
  assert (Hbit : (Z.land (mask w raw) (- 2 ^ (w - 1)) =? 0) = negb (Z.testbit raw (w - 1))).
  { destruct (Z.testbit raw (w - 1)) eqn:Eb; simpl.
    - apply Z.eqb_neq. intros H0.
      assert (Z.testbit (Z.land (mask w raw) (- 2 ^ (w - 1))) (w - 1) = true) as Ht.
      { rewrite Z.land_spec, testbit_mask, testbit_neg_pow2 by lia.
        replace (w - 1 <? w) with true by lia. replace (w - 1 <=? w - 1) with true by lia.
        rewrite Eb; reflexivity. }
      rewrite H0, Z.bits_0 in Ht. discriminate.
    - apply Z.eqb_eq. apply Z.bits_inj'; intros i Hi.
      rewrite Z.land_spec, Z.bits_0, testbit_mask, testbit_neg_pow2 by lia.
      destruct (Z_lt_le_dec i (w - 1)).
      + replace (w - 1 <=? i) with false by lia. apply andb_false_r.
      + destruct (Z.eq_dec i (w - 1)) as [->|]; [rewrite Eb; rewrite andb_false_r; reflexivity|].
        replace (i <? w) with false by lia. reflexivity. }
  rewrite Hbit. apply Z.bits_inj'; intros i Hi. rewrite testbit_sext by lia.
  destruct (Z.testbit raw (w - 1)) eqn:Eb; simpl.
  - rewrite Z.lor_spec, testbit_mask, testbit_neg_pow2 by lia.
    destruct (i <? w) eqn:E1.
    + destruct (Z.eq_dec i (w - 1)) as [->|].
      * replace (w - 1 <=? w - 1) with true by lia. rewrite orb_true_r. auto.
      * replace (w - 1 <=? i) with false by lia. rewrite orb_false_r. reflexivity.
    + replace (w - 1 <=? i) with true by lia. rewrite orb_true_r. auto.
  - rewrite testbit_mask by lia. destruct (i <? w) eqn:E1; simpl; auto.
Qed.

Lemma rsign_norm s raw : wf_shape s = true -> rsign s raw = norm s raw.
Proof.
  unfold wf_shape, rsign, norm. destruct (sgn s); intros.
  - rewrite rmask_mask by lia. apply py_sign_sext; lia.
  - apply rmask_mask; lia.
Qed.

(* ---------- congruence modulo 2^w ---------- *)
Definition cong (w a b : Z) : Prop := forall i, 0 <= i < w -> Z.testbit a i = Z.testbit b i.

Lemma cong_norm s x : wf_shape s = true -> cong (width s) (norm s x) x.
Proof.
  intros Hwf i Hi. rewrite testbit_norm by (auto; lia).
  destruct (sgn s); replace (i <? width s) with true by lia; reflexivity.
Qed.

Lemma cong_sym w a b : cong w a b -> cong w b a.
Proof. intros H i Hi; symmetry; auto. Qed.

Lemma cong_mask w a b : 0 <= w -> cong w a b -> mask w a = mask w b.
Proof.
  intros Hw H. apply Z.bits_inj'; intros i Hi. rewrite !testbit_mask by auto.
  destruct (i <? w) eqn:E; simpl; auto. apply H; lia.
Qed.

Lemma cong_sext w a b : 1 <= w -> cong w a b -> sext w a = sext w b.
Proof.
  intros Hw H. apply Z.bits_inj'; intros i Hi. rewrite !testbit_sext by auto.
  destruct (i <? w) eqn:E; apply H; lia.
Qed.

Lemma cong_norm_eq s a b : wf_shape s = true -> cong (width s) a b -> norm s a = norm s b.
Proof.
  unfold wf_shape, norm. destruct (sgn s); intros.
  - apply cong_sext; auto; lia.
  - apply cong_mask; auto; lia.
Qed.

Lemma cong_le w w' a b : w' <= w -> cong w a b -> cong w' a b.
Proof. intros Hle H i Hi. apply H; lia. Qed.

(* raw value r represents d in shape s *)
Definition repr (s : shape) (r d : Z) : Prop := norm s r = d.

Lemma repr_cong s r d : wf_shape s = true -> repr s r d -> cong (width s) r d.
Proof. intros Hwf <-. apply cong_sym, cong_norm; auto. Qed.

(* ---------- in_range through bits ---------- *)
Lemma in_range_norm_fix s v : wf_shape s = true -> (in_range s v <-> norm s v = v).
Proof.
  intros Hwf; split; [apply norm_id; auto|]. intros <-. apply norm_in_range; auto.
Qed.

Lemma in_range_bits s v : wf_shape s = true ->
  (in_range s v <->
   forall i, width s <= i ->
     Z.testbit v i = if sgn s then Z.testbit v (width s - 1) else false).
Proof.
  intros Hwf. rewrite in_range_norm_fix by auto. split.
  - intros H i Hi. assert (0 <= width s) by (unfold wf_shape in Hwf; destruct (sgn s); lia).
    rewrite <- H at 1. rewrite testbit_norm by (auto; lia).
    replace (i <? width s) with false by lia. destruct (sgn s); reflexivity.
  - intros H. apply Z.bits_inj'; intros i Hi. rewrite testbit_norm by auto.
    destruct (i <? width s) eqn:E.
    + destruct (sgn s); reflexivity.
    + rewrite (H i ltac:(lia)). destruct (sgn s); reflexivity.
Qed.

Lemma wf_width_nonneg s : wf_shape s = true -> 0 <= width s.
Proof. unfold wf_shape; destruct (sgn s); lia. Qed.

(* monotonicity of ranges *)
Lemma in_range_widen s t v : wf_shape s = true -> wf_shape t = true -> shape_le s t -> in_range s v -> in_range t v.
Proof. intros _ _ H; apply H. Qed.

Lemma unify2_wf a b : wf_shape a = true -> wf_shape b = true -> wf_shape (unify2 a b) = true.
Proof. intros; apply unify_wf; repeat constructor; auto. Qed.

Lemma unify2_le_l a b : wf_shape a = true -> wf_shape b = true -> shape_le a (unify2 a b).
Proof. intros; apply unify_upper; [repeat constructor; auto|left; reflexivity]. Qed.
Lemma unify2_le_r a b : wf_shape a = true -> wf_shape b = true -> shape_le b (unify2 a b).
Proof. intros; apply unify_upper; [repeat constructor; auto|right; left; reflexivity]. Qed.

(* ---------- operator shapes are sound ---------- *)
Lemma zero_in_range s : wf_shape s = true -> in_range s 0.
Proof.
  unfold wf_shape, in_range; destruct (sgn s); intros.
  - pose proof (pow2_pos (width s - 1) ltac:(lia)). lia.
  - pose proof (pow2_pos (width s) ltac:(lia)). lia.
Qed.

Lemma b2z_range b : in_range (Sh 1 false) (b2z b).
Proof. unfold in_range; simpl. destruct b; simpl; lia. Qed.

Lemma parity_range x : 0 <= parity x < 2.
Proof. unfold parity. apply Z.mod_pos_bound; lia. Qed.

Lemma op1_sound o sa a : wf_shape sa = true -> in_range sa a ->
  (o = OS -> 0 < width sa) ->
  wf_shape (op1_shape o sa) = true /\ in_range (op1_shape o sa) (den_op1 o sa a).
Proof.
  intros Hwf Ha Hos. pose proof (wf_width_nonneg sa Hwf) as Hw.
  destruct o; simpl.
  - (* ~ *) split; [exact Hwf|]. unfold wf_shape, in_range in *; simpl. destruct (sgn sa); lia.
  - (* neg *) split; [unfold wf_shape; simpl; lia|].
    unfold wf_shape, in_range in *; simpl. replace (width sa + 1 - 1) with (width sa) by lia.
    destruct (sgn sa).
    + pose proof (pow2_split (width sa) ltac:(lia)). pose proof (pow2_pos (width sa - 1) ltac:(lia)). lia.
    + lia.
  - split; [reflexivity|apply b2z_range].
  - split; [reflexivity|apply b2z_range].
  - split; [reflexivity|apply b2z_range].
  - split; [reflexivity|]. unfold in_range; simpl. pose proof (parity_range (a mod 2 ^ width sa)). lia.
  - split; [unfold wf_shape; simpl; lia|]. unfold in_range; simpl. apply Z.mod_pos_bound, pow2_pos; auto.
  - specialize (Hos eq_refl). split; [unfold wf_shape; simpl; lia|].
    unfold in_range; simpl. apply sext_range; lia.
Qed.

Lemma div_abs_le a b : b <> 0 -> - Z.abs a <= a / b <= Z.abs a.
Proof.
  intros Hb. pose proof (Z.div_mod a b Hb) as Hd.
  destruct (Z_lt_le_dec 0 b).
  - pose proof (Z.mod_pos_bound a b ltac:(lia)). nia.
  - pose proof (Z.mod_neg_bound a b ltac:(lia)). nia.
Qed.

Lemma div_pos_range a b : 0 < b -> (0 <= a -> 0 <= a / b <= a) /\ (a < 0 -> a <= a / b < 0).
Proof.
  intros Hb. pose proof (Z.div_mod a b ltac:(lia)). pose proof (Z.mod_pos_bound a b Hb). split; intros; nia.
Qed.

Lemma op2_sound o sa sb a b : wf_shape sa = true -> wf_shape sb = true ->
  in_range sa a -> in_range sb b ->
  (match o with OShl | OShr => sgn sb = false | _ => True end) ->
  wf_shape (op2_shape o sa sb) = true /\ in_range (op2_shape o sa sb) (den_op2 o a b).
Proof.
  intros Hwa Hwb Ha Hb Hsh.
  pose proof (wf_width_nonneg sa Hwa) as Hwan. pose proof (wf_width_nonneg sb Hwb) as Hwbn.
  pose proof (unify2_wf sa sb Hwa Hwb) as Hwu.
  pose proof (unify2_le_l sa sb Hwa Hwb a Ha) as Hau.
  pose proof (unify2_le_r sa sb Hwa Hwb b Hb) as Hbu.
  pose proof (wf_width_nonneg _ Hwu) as Hwun.
  destruct o; simpl.
  - (* + *) set (u := unify2 sa sb) in *. split.
    + unfold wf_shape in *; simpl. destruct (sgn u); lia.
    + unfold wf_shape, in_range in *; simpl. replace (width u + 1 - 1) with (width u) by lia.
      destruct (sgn u).
      * pose proof (pow2_split (width u) ltac:(lia)). lia.
      * rewrite Z.pow_add_r by lia. change (2 ^ 1) with 2. lia.
  - (* - *) set (u := unify2 sa sb) in *. split.
    + unfold wf_shape; simpl; lia.
    + unfold wf_shape, in_range in *; simpl. replace (width u + 1 - 1) with (width u) by lia.
      destruct (sgn u).
      * pose proof (pow2_split (width u) ltac:(lia)). lia.
      * lia.
  - (* * *) split.
    + unfold wf_shape in *; simpl. destruct (sgn sa), (sgn sb); simpl; lia.
    + unfold wf_shape, in_range in *; simpl. destruct (sgn sa) eqn:Esa, (sgn sb) eqn:Esb; simpl.
      * replace (width sa + width sb - 1) with ((width sa - 1) + (width sb - 1) + 1) by lia.
        rewrite !Z.pow_add_r by lia. change (2 ^ 1) with 2.
        pose proof (pow2_pos (width sa - 1) ltac:(lia)). pose proof (pow2_pos (width sb - 1) ltac:(lia)). nia.
      * replace (width sa + width sb - 1) with ((width sa - 1) + width sb) by lia.
        rewrite !Z.pow_add_r by lia.
        pose proof (pow2_pos (width sa - 1) ltac:(lia)). pose proof (pow2_pos (width sb) ltac:(lia)). nia.
      * replace (width sa + width sb - 1) with (width sa + (width sb - 1)) by lia.
        rewrite !Z.pow_add_r by lia.
        pose proof (pow2_pos (width sa) ltac:(lia)). pose proof (pow2_pos (width sb - 1) ltac:(lia)). nia.
      * rewrite !Z.pow_add_r by lia.
        pose proof (pow2_pos (width sa) ltac:(lia)). pose proof (pow2_pos (width sb) ltac:(lia)). nia.
  - (* // *) split.
    + unfold wf_shape in *; simpl. destruct (sgn sa), (sgn sb); simpl; lia.
    + unfold pydiv. destruct (b =? 0) eqn:Eb0.
      * apply zero_in_range. unfold wf_shape in *; simpl. destruct (sgn sa), (sgn sb); simpl; lia.
      * pose proof (div_abs_le a b ltac:(lia)) as Habs.
        unfold wf_shape, in_range in *; simpl. destruct (sgn sa) eqn:Esa, (sgn sb) eqn:Esb; simpl.
        -- replace (width sa + 1 - 1) with (width sa) by lia.
           pose proof (pow2_split (width sa) ltac:(lia)). pose proof (pow2_pos (width sa - 1) ltac:(lia)). lia.
        -- rewrite Z.add_0_r. destruct (div_pos_range a b ltac:(lia)) as [H1 H2].
           destruct (Z_lt_le_dec a 0); [specialize (H2 ltac:(lia))|specialize (H1 ltac:(lia))]; lia.
        -- replace (width sa + 1 - 1) with (width sa) by lia. lia.
        -- rewrite Z.add_0_r. destruct (div_pos_range a b ltac:(lia)) as [H1 _]. specialize (H1 ltac:(lia)). lia.
  - (* % *) split; [destruct sb; exact Hwb|].
    unfold pymod. destruct (b =? 0) eqn:Eb0.
    + apply zero_in_range. destruct sb; exact Hwb.
    + unfold wf_shape, in_range in *; simpl. destruct (sgn sb) eqn:Esb.
      * destruct (Z_lt_le_dec 0 b).
        -- pose proof (Z.mod_pos_bound a b ltac:(lia)). lia.
        -- pose proof (Z.mod_neg_bound a b ltac:(lia)). lia.
      * pose proof (Z.mod_pos_bound a b ltac:(lia)). lia.
  - (* & *) split; [exact Hwu|]. apply in_range_bits; auto. intros i Hi.
    pose proof (proj1 (in_range_bits _ _ Hwu) Hau) as Hau'. pose proof (proj1 (in_range_bits _ _ Hwu) Hbu) as Hbu'.
    rewrite !Z.land_spec, (Hau' i Hi), (Hbu' i Hi). destruct (sgn (unify2 sa sb)); reflexivity.
  - (* | *) split; [exact Hwu|]. apply in_range_bits; auto. intros i Hi.
    pose proof (proj1 (in_range_bits _ _ Hwu) Hau) as Hau'. pose proof (proj1 (in_range_bits _ _ Hwu) Hbu) as Hbu'.
    rewrite !Z.lor_spec, (Hau' i Hi), (Hbu' i Hi). destruct (sgn (unify2 sa sb)); reflexivity.
  - (* ^ *) split; [exact Hwu|]. apply in_range_bits; auto. intros i Hi.
    pose proof (proj1 (in_range_bits _ _ Hwu) Hau) as Hau'. pose proof (proj1 (in_range_bits _ _ Hwu) Hbu) as Hbu'.
    rewrite !Z.lxor_spec, (Hau' i Hi), (Hbu' i Hi). destruct (sgn (unify2 sa sb)); reflexivity.
  - (* << *) pose proof (pow2_pos (width sb) Hwbn) as Hpb.
    unfold in_range in Hb; rewrite Hsh in Hb.
    assert (Hexp : 2 ^ b <= 2 ^ (2 ^ width sb - 1)) by (apply pow2_mono; lia).
    pose proof (pow2_pos b ltac:(lia)) as Hpb2.
    split.
    + unfold wf_shape in *; simpl. destruct (sgn sa); lia.
    + unfold wf_shape, in_range in *; simpl. destruct (sgn sa) eqn:Esa.
      * replace (width sa + 2 ^ width sb - 1 - 1) with ((width sa - 1) + (2 ^ width sb - 1)) by lia.
        rewrite Z.pow_add_r by lia. pose proof (pow2_pos (width sa - 1) ltac:(lia)). nia.
      * replace (width sa + 2 ^ width sb - 1) with (width sa + (2 ^ width sb - 1)) by lia.
        rewrite Z.pow_add_r by lia. pose proof (pow2_pos (width sa) ltac:(lia)). nia.
  - (* >> *) split; [destruct sa; exact Hwa|].
    unfold in_range in Hb; rewrite Hsh in Hb. pose proof (pow2_pos b ltac:(lia)) as Hpb2.
    destruct (div_pos_range a (2 ^ b) Hpb2) as [H1 H2].
    unfold wf_shape, in_range in *; simpl. destruct (sgn sa) eqn:Esa.
    + destruct (Z_lt_le_dec a 0); [specialize (H2 ltac:(lia))|specialize (H1 ltac:(lia))]; lia.
    + specialize (H1 ltac:(lia)). lia.
  - split; [reflexivity|apply b2z_range].
  - split; [reflexivity|apply b2z_range].
  - split; [reflexivity|apply b2z_range].
  - split; [reflexivity|apply b2z_range].
  - split; [reflexivity|apply b2z_range].
  - split; [reflexivity|apply b2z_range].
Qed.

(* ---------- induction principle for the nested expression type ---------- *)
Section expr_ind'.
  Variable P : expr -> Prop.
  Hypothesis Hconst : forall v s, P (EConst v s).
  Hypothesis Hsig : forall i s, P (ESig i s).
  Hypothesis Hop1 : forall o a, P a -> P (EOp1 o a).
  Hypothesis Hop2 : forall o a b, P a -> P b -> P (EOp2 o a b).
  Hypothesis Hslice : forall a lo hi, P a -> P (ESlice a lo hi).
  Hypothesis Hpart : forall a off w st, P a -> P off -> P (EPart a off w st).
  Hypothesis Hcat : forall l, Forall P l -> P (ECat l).
  Hypothesis Hsw : forall t cs, P t -> Forall (fun c => P (snd c)) cs -> P (ESwitch t cs).
  Fixpoint expr_ind' (e : expr) : P e :=
    match e with
    | EConst v s => Hconst v s
    | ESig i s => Hsig i s
    | EOp1 o a => Hop1 o a (expr_ind' a)
    | EOp2 o a b => Hop2 o a b (expr_ind' a) (expr_ind' b)
    | ESlice a lo hi => Hslice a lo hi (expr_ind' a)
    | EPart a off w st => Hpart a off w st (expr_ind' a) (expr_ind' off)
    | ECat l => Hcat l ((fix go (l : list expr) : Forall P l :=
                           match l with
                           | [] => Forall_nil _
                           | x :: xs => Forall_cons _ (expr_ind' x) (go xs)
                           end) l)
    | ESwitch t cs => Hsw t cs (expr_ind' t)
                        ((fix go (l : list (option (list pattern) * expr)) : Forall (fun c => P (snd c)) l :=
                            match l with
                            | [] => Forall_nil _
                            | x :: xs => Forall_cons _ (expr_ind' (snd x)) (go xs)
                            end) cs)
    end.
End expr_ind'.

Lemma env_ok_cat en l : env_ok en (ECat l) <-> Forall (env_ok en) l.
Proof.
  induction l as [|p l IH]; simpl.
  - split; auto.
  - simpl in IH. rewrite IH. split; [intros [H1 H2]; constructor; auto|intros H; inversion H; auto].
Qed.

Lemma env_ok_sw en t cs : env_ok en (ESwitch t cs) <-> env_ok en t /\ Forall (fun c => env_ok en (snd c)) cs.
Proof.
  simpl. apply and_iff_compat_l. induction cs as [|c cs IH]; simpl.
  - split; auto.
  - rewrite IH. split; [intros [H1 H2]; constructor; auto|intros H; inversion H; auto].
Qed.

Lemma cat_of_range ps : Forall (fun p => 0 <= snd p) ps ->
  0 <= fold_right (fun p acc => snd p + acc) 0 ps /\
  0 <= cat_of ps < 2 ^ fold_right (fun p acc => snd p + acc) 0 ps.
Proof.
  induction ps as [|[v w] ps IH]; intros HF; simpl.
  - lia.
  - inversion HF as [|? ? Hw HF']; subst. simpl in Hw. destruct (IH HF') as [Hs Hc].
    split; [lia|]. rewrite Z.pow_add_r by lia.
    pose proof (Z.mod_pos_bound v (2 ^ w) (pow2_pos w Hw)). pose proof (pow2_pos w Hw).
    pose proof (pow2_pos _ Hs). nia.
Qed.

Lemma switch_of_in t cs : switch_of t cs = 0 \/ exists ps, In (ps, switch_of t cs) cs.
Proof.
  induction cs as [|[ps v] cs IH]; simpl; [left; reflexivity|].
  destruct (case_sem t ps).
  - right; exists ps; left; reflexivity.
  - destruct IH as [IH|[ps' IH]]; [left; auto|right; exists ps'; right; auto].
Qed.

Lemma switch_of_cases t cs (Q : Z -> Prop) :
  Q 0 -> (forall ps v, In (ps, v) cs -> Q v) -> Q (switch_of t cs).
Proof.
  intros H0 Hall. destruct (switch_of_in t cs) as [->|[ps Hin]]; auto. eapply Hall; eauto.
Qed.

(* ---------- C01: the shape of every expression contains its exact value ---------- *)
Theorem shape_sound en e : wf_expr e = true -> env_ok en e ->
  wf_shape (shape_of e) = true /\ in_range (shape_of e) (denote en e).
Proof.
  induction e as [v s|i s|o a IHa|o a b IHa IHb|a lo hi IHa|a off w st IHa IHoff|l IH|t cs IHt IHcs]
    using expr_ind'; intros Hwf Henv.
  - simpl in *. split; [auto|apply norm_in_range; auto].
  - simpl in *. split; auto.
  - simpl in Hwf. apply andb_prop in Hwf. destruct Hwf as [Hwa Hos].
    destruct (IHa Hwa Henv) as [H1 H2]. simpl. apply op1_sound; auto.
    intros ->. unfold ewidth in Hos. lia.
  - simpl in Hwf. apply andb_prop in Hwf. destruct Hwf as [Hwf Hsh]. apply andb_prop in Hwf. destruct Hwf as [Hwa Hwb].
    simpl in Henv. destruct Henv as [Hea Heb].
    destruct (IHa Hwa Hea) as [H1 H2]. destruct (IHb Hwb Heb) as [H3 H4]. simpl. apply op2_sound; auto.
    destruct o; auto; destruct (sgn (shape_of b)); simpl in Hsh; auto; discriminate.
  - simpl in Hwf. repeat (apply andb_prop in Hwf; destruct Hwf as [Hwf ?]).
    simpl. split; [unfold wf_shape; simpl; lia|].
    unfold in_range, bits_at; simpl. apply Z.mod_pos_bound, pow2_pos; lia.
  - simpl in Hwf. repeat (apply andb_prop in Hwf; destruct Hwf as [Hwf ?]).
    simpl. split; [unfold wf_shape; simpl; lia|].
    unfold in_range, bits_at; simpl. apply Z.mod_pos_bound, pow2_pos; lia.
  - simpl in Hwf. apply env_ok_cat in Henv.
    assert (HF : Forall (fun p : Z * Z => 0 <= snd p) (map (fun p => (denote en p, ewidth p)) l)).
    { apply Forall_forall. intros [v w] Hin. apply in_map_iff in Hin. destruct Hin as (p & Heq & Hin).
      inversion Heq; subst. simpl. rewrite Forall_forall in IH, Henv. rewrite forallb_forall in Hwf.
      destruct (IH p Hin (Hwf p Hin) (Henv p Hin)) as [Hw _]. apply wf_width_nonneg; auto. }
    destruct (cat_of_range _ HF) as [Hs Hc].
    assert (Hsum : fold_right (fun p acc => snd p + acc) 0 (map (fun p => (denote en p, ewidth p)) l)
                   = fold_right (fun p acc => width (shape_of p) + acc) 0 l).
    { clear. induction l as [|p l IHl]; simpl; [reflexivity|]. rewrite IHl. reflexivity. }
    rewrite Hsum in *. simpl. split; [unfold wf_shape; simpl; lia|]. unfold in_range; simpl. exact Hc.
  - simpl in Hwf. apply andb_prop in Hwf. destruct Hwf as [Hwt Hwcs].
    apply env_ok_sw in Henv. destruct Henv as [Het Hecs].
    rewrite forallb_forall in Hwcs. rewrite Forall_forall in IHcs, Hecs.
    assert (Hall : forall c, In c cs -> wf_shape (shape_of (snd c)) = true /\ in_range (shape_of (snd c)) (denote en (snd c))).
    { intros c Hin. specialize (Hwcs c Hin). apply andb_prop in Hwcs. destruct Hwcs as [Hwc _].
      apply IHcs; auto. }
    assert (HwfF : Forall (fun s => wf_shape s = true) (map (fun c => shape_of (snd c)) cs)).
    { apply Forall_forall. intros s Hin. apply in_map_iff in Hin. destruct Hin as (c & <- & Hin). apply Hall; auto. }
    simpl. split; [apply unify_wf; auto|].
    apply switch_of_cases.
    + apply zero_in_range, unify_wf; auto.
    + intros ps v Hin. apply in_map_iff in Hin. destruct Hin as (c & Heq & Hin).
      injection Heq as Hps Hv. subst v.
      apply (unify_upper _ (shape_of (snd c))); auto.
      * apply in_map_iff. exists c; auto.
      * apply Hall; auto.
Qed.

(* ---------- patterns: int(...,2)/mask arithmetic = per-bit matching ---------- *)
Definition pbit_v (b : option bool) : Z := match b with Some true => 1 | _ => 0 end.
Definition pbit_m (b : option bool) : Z := match b with None => 0 | Some _ => 1 end.

Lemma pat_value_acc_spec p : forall acc, pat_value_acc p acc = acc * 2 ^ Z.of_nat (length p) + pat_value_acc p 0.
Proof.
  induction p as [|b r IH]; intros acc; simpl length.
  - simpl. lia.
  - rewrite Nat2Z.inj_succ, Z.pow_succ_r by lia. cbn [pat_value_acc].
    destruct b as [[|]|]; rewrite (IH (2 * acc + 1)) || rewrite (IH (2 * acc));
      try rewrite (IH (2 * 0 + 1)); try rewrite (IH (2 * 0)); lia.
Qed.

Lemma pat_mask_acc_spec p : forall acc, pat_mask_acc p acc = acc * 2 ^ Z.of_nat (length p) + pat_mask_acc p 0.
Proof.
  induction p as [|b r IH]; intros acc; simpl length.
  - simpl. lia.
  - rewrite Nat2Z.inj_succ, Z.pow_succ_r by lia. cbn [pat_mask_acc].
    destruct b as [[|]|]; rewrite (IH (2 * acc + 1)) || rewrite (IH (2 * acc));
      try rewrite (IH (2 * 0 + 1)); try rewrite (IH (2 * 0)); lia.
Qed.

Lemma pat_value_cons b r : pat_value (b :: r) = pbit_v b * 2 ^ Z.of_nat (length r) + pat_value r.
Proof.
  unfold pat_value. cbn [pat_value_acc]. destruct b as [[|]|]; cbn [pbit_v];
    rewrite pat_value_acc_spec; lia.
Qed.

Lemma pat_mask_cons b r : pat_mask (b :: r) = pbit_m b * 2 ^ Z.of_nat (length r) + pat_mask r.
Proof.
  unfold pat_mask. cbn [pat_mask_acc]. destruct b as [[|]|]; cbn [pbit_m];
    rewrite pat_mask_acc_spec; lia.
Qed.

Lemma pat_value_range p : 0 <= pat_value p < 2 ^ Z.of_nat (length p).
Proof.
  induction p as [|b r IH]; [unfold pat_value; simpl; lia|].
  rewrite pat_value_cons. simpl length. rewrite Nat2Z.inj_succ, Z.pow_succ_r by lia.
  destruct b as [[|]|]; cbn [pbit_v]; lia.
Qed.

Lemma pat_mask_range p : 0 <= pat_mask p < 2 ^ Z.of_nat (length p).
Proof.
  induction p as [|b r IH]; [unfold pat_mask; simpl; lia|].
  rewrite pat_mask_cons. simpl length. rewrite Nat2Z.inj_succ, Z.pow_succ_r by lia.
  destruct b as [[|]|]; cbn [pbit_m]; lia.
Qed.

Lemma testbit_hi_lo x y n i : 0 <= n -> 0 <= y < 2 ^ n -> 0 <= i ->
  Z.testbit (x * 2 ^ n + y) i = if i <? n then Z.testbit y i else Z.testbit x (i - n).
Proof.
  intros Hn Hy Hi. replace (x * 2 ^ n + y) with (y + x * 2 ^ n) by lia.
  rewrite <- lor_shiftl_add by auto. rewrite Z.lor_spec, Z.shiftl_spec by auto.
  destruct (i <? n) eqn:E.
  - rewrite (Z.testbit_neg_r x (i - n)) by lia. apply orb_false_r.
  - rewrite <- (Z.mod_small y (2 ^ n)) by auto. rewrite Z.mod_pow2_bits_high by lia. reflexivity.
Qed.

Lemma land_hi_lo x1 y1 x2 y2 n : 0 <= n -> 0 <= y1 < 2 ^ n -> 0 <= y2 < 2 ^ n ->
  Z.land (x1 * 2 ^ n + y1) (x2 * 2 ^ n + y2) = Z.land x1 x2 * 2 ^ n + Z.land y1 y2.
Proof.
  intros Hn H1 H2.
  assert (0 <= Z.land y1 y2 < 2 ^ n) as H3.
  { split; [apply Z.land_nonneg; lia|].
    destruct (Z.eq_dec (Z.land y1 y2) 0) as [->|Hne]; [apply pow2_pos; auto|].
    apply Z.log2_lt_pow2; [pose proof (Z.land_nonneg y1 y2); lia|].
    destruct (Z.eq_dec y1 0) as [->|]; [rewrite Z.land_0_l in Hne; lia|].
    pose proof (Z.log2_land y1 y2 ltac:(lia) ltac:(lia)).
    pose proof (proj1 (Z.log2_lt_pow2 y1 n ltac:(lia)) ltac:(lia)). lia. }
  apply Z.bits_inj'; intros i Hi. rewrite Z.land_spec, !testbit_hi_lo by auto.
  destruct (i <? n); rewrite Z.land_spec; reflexivity.
Qed.

Lemma pat_sem_low r : forall t t', (forall i, 0 <= i < Z.of_nat (length r) -> Z.testbit t i = Z.testbit t' i) ->
  pat_sem r t = pat_sem r t'.
Proof.
  induction r as [|b r IH]; intros t t' H; [reflexivity|].
  cbn [pat_sem]. simpl length in H. rewrite Nat2Z.inj_succ in H.
  rewrite (IH t t') by (intros; apply H; lia).
  destruct b as [v|]; [|reflexivity]. rewrite (H (Z.of_nat (length r))) by lia. reflexivity.
Qed.

Lemma pat_match_sem p : forall t, 0 <= t < 2 ^ Z.of_nat (length p) -> pat_match t p = pat_sem p t.
Proof.
  unfold pat_match. induction p as [|b r IH]; intros t Ht.
  - unfold pat_value, pat_mask; simpl. reflexivity.
  - simpl length in Ht. rewrite Nat2Z.inj_succ, Z.pow_succ_r in Ht by lia.
    set (n := Z.of_nat (length r)) in *. assert (0 <= n) as Hn by lia.
    pose proof (pow2_pos n Hn) as Hp.
    pose proof (Z.div_mod t (2 ^ n) ltac:(lia)) as Hdm.
    pose proof (Z.mod_pos_bound t (2 ^ n) Hp) as Hmb.
    set (tb := t / 2 ^ n) in *. set (t' := t mod 2 ^ n) in *.
    assert (0 <= tb <= 1) as Htb by nia.
    rewrite pat_value_cons, pat_mask_cons. fold n.
    replace t with (tb * 2 ^ n + t') at 1 by lia.
    pose proof (pat_mask_range r) as Hmr. pose proof (pat_value_range r) as Hvr. fold n in Hmr, Hvr.
    rewrite land_hi_lo by auto.
    cbn [pat_sem]. fold n.
    rewrite (pat_sem_low r t t') by (intros i Hi; unfold t'; rewrite Z.mod_pow2_bits_low by lia; reflexivity).
    rewrite <- (IH t' Hmb).
    assert (0 <= Z.land (pat_mask r) t' < 2 ^ n) as HL.
    { split; [apply Z.land_nonneg; lia|].
      pose proof (land_hi_lo 0 (pat_mask r) 0 t' n Hn Hmr Hmb) as Hl. simpl in Hl.
      destruct (Z.eq_dec (Z.land (pat_mask r) t') 0) as [->|Hne]; [lia|].
      apply Z.log2_lt_pow2; [pose proof (Z.land_nonneg (pat_mask r) t'); lia|].
      destruct (Z.eq_dec (pat_mask r) 0) as [e|]; [rewrite e, Z.land_0_l in Hne; lia|].
      pose proof (Z.log2_land (pat_mask r) t' ltac:(lia) ltac:(lia)).
      pose proof (proj1 (Z.log2_lt_pow2 (pat_mask r) n ltac:(lia)) ltac:(lia)). lia. }
    assert (Htbit : Z.testbit t n = (tb =? 1)).
    { replace t with (tb * 2 ^ n + t') by lia. rewrite testbit_hi_lo by lia.
      replace (n <? n) with false by lia. replace (n - n) with 0 by lia.
      destruct (Z.eq_dec tb 0) as [->|]; [reflexivity|]. replace tb with 1 by lia. reflexivity. }
    rewrite Htbit.
    assert (Hland : Z.land (pbit_m b) tb = if (pbit_m b =? 1) && (tb =? 1) then 1 else 0).
    { destruct b as [[|]|]; cbn [pbit_m]; destruct (Z.eq_dec tb 0) as [->|]; try reflexivity;
        replace tb with 1 by lia; reflexivity. }
    rewrite Hland.
    destruct b as [[|]|]; cbn [pbit_v pbit_m];
      destruct (tb =? 1) eqn:E1; cbn [andb Bool.eqb Z.eqb Pos.eqb];
      rewrite ?Z.mul_1_l, ?Z.mul_0_l, ?Z.add_0_l;
      destruct (pat_value r =? Z.land (pat_mask r) t') eqn:E2; lia.
Qed.

Lemma no_dash_mask p : has_dash p = false -> pat_mask p = 2 ^ Z.of_nat (length p) - 1.
Proof.
  induction p as [|b r IH]; intros H; [reflexivity|].
  unfold has_dash in H. simpl in H. destruct b as [v|]; [|discriminate]. simpl in H.
  rewrite pat_mask_cons, IH by exact H. simpl length. rewrite Nat2Z.inj_succ, Z.pow_succ_r by lia.
  cbn [pbit_m]. lia.
Qed.

Lemma no_dash_exact p t : has_dash p = false -> 0 <= t < 2 ^ Z.of_nat (length p) ->
  (pat_value p =? t) = pat_match t p.
Proof.
  intros Hd Ht. unfold pat_match. rewrite no_dash_mask by auto.
  replace (2 ^ Z.of_nat (length p) - 1) with (Z.ones (Z.of_nat (length p))) by (rewrite Z.ones_equiv; lia).
  rewrite Z.land_comm, Z.land_ones by lia. rewrite Z.mod_small by auto. reflexivity.
Qed.

(* ---------- Concat as compiled ---------- *)
Lemma cat_of_nonneg ps : Forall (fun p => 0 <= snd p) ps -> 0 <= cat_of ps.
Proof. intros H; apply cat_of_range in H; lia. Qed.

Lemma rtl_cat_spec ps : forall off, 0 <= off -> Forall (fun p => 0 <= snd p) ps ->
  rtl_cat ps off = 2 ^ off * cat_of ps.
Proof.
  induction ps as [|[raw w] ps IH]; intros off Hoff HF; simpl.
  - lia.
  - inversion HF as [|? ? Hw HF']; subst. simpl in Hw.
    rewrite IH by (auto; lia). rewrite rmask_mask by auto.
    pose proof (mask_range w raw Hw) as Hm. unfold mask in *.
    pose proof (cat_of_nonneg ps HF') as Hc.
    rewrite Z.shiftl_mul_pow2 by auto.
    replace (2 ^ (off + w) * cat_of ps) with (Z.shiftl (cat_of ps) (off + w))
      by (rewrite Z.shiftl_mul_pow2 by lia; lia).
    rewrite lor_shiftl_add.
    + rewrite Z.pow_add_r by lia. lia.
    + lia.
    + rewrite Z.pow_add_r by lia. pose proof (pow2_pos off Hoff). pose proof (pow2_pos w Hw). nia.
Qed.

Lemma mask_norm s x : wf_shape s = true -> mask (width s) (norm s x) = mask (width s) x.
Proof. intros Hwf. apply cong_mask; [apply wf_width_nonneg; auto|apply cong_norm; auto]. Qed.

Lemma cat_of_congr (l : list expr) (f g : expr -> Z) :
  (forall p, In p l -> (f p) mod 2 ^ ewidth p = (g p) mod 2 ^ ewidth p) ->
  cat_of (map (fun p => (f p, ewidth p)) l) = cat_of (map (fun p => (g p, ewidth p)) l).
Proof.
  induction l as [|p l IH]; intros H; simpl; [reflexivity|].
  rewrite (H p (or_introl eq_refl)), IH by (intros; apply H; right; auto). reflexivity.
Qed.

(* norm of x equals d when d is in range and congruent *)
Lemma norm_eq_intro s x d : wf_shape s = true -> in_range s d -> (exists k, d = x + k * 2 ^ width s) -> norm s x = d.
Proof. intros Hwf Hr [k Hk]. symmetry. eapply norm_unique; eauto. Qed.

Lemma sext_zero_iff w x : 1 <= w -> (sext w x =? 0) = (mask w x =? 0).
Proof.
  intros Hw. destruct (mask w x =? 0) eqn:E.
  - apply Z.eqb_eq in E. apply Z.eqb_eq. rewrite <- sext_mask by auto. rewrite E. unfold sext.
    rewrite Z.mod_0_l by (pose proof (pow2_pos w); lia).
    pose proof (pow2_pos (w - 1) ltac:(lia)). replace (2 ^ (w - 1) <=? 0) with false by lia. reflexivity.
  - apply Z.eqb_neq in E. apply Z.eqb_neq. intros H0. apply E.
    rewrite <- mask_sext by auto. rewrite H0. unfold mask. apply Z.mod_0_l. pose proof (pow2_pos w); lia.
Qed.

Lemma norm_zero_iff s x : wf_shape s = true -> (norm s x =? 0) = (mask (width s) x =? 0).
Proof.
  unfold wf_shape, norm. destruct (sgn s); intros; [apply sext_zero_iff; lia|reflexivity].
Qed.

Lemma rtl_switch_sem um t (cs : list (option (list pattern) * Z)) w :
  0 <= t < 2 ^ w ->
  Forall (fun c => match fst c with None => True | Some ps => Forall (fun p => Z.of_nat (length p) = w) ps end) cs ->
  um = use_match (map fst cs) ->
  rtl_switch um t cs = switch_of t cs.
Proof.
  intros Ht HF Hum.
  assert (Hcase : forall ps, (match ps with None => True | Some l => Forall (fun p => Z.of_nat (length p) = w) l end) ->
            (um = true -> match ps with None => True | Some l => existsb has_dash l = false end) ->
            rtl_case_match um t ps = case_sem t ps).
  { intros [l|] Hl Hnd; simpl; [|reflexivity].
    destruct um.
    - specialize (Hnd eq_refl). induction l as [|p l IHl]; simpl; [reflexivity|].
      pose proof (Forall_inv Hl) as Hp; pose proof (Forall_inv_tail Hl) as Hl'; cbv beta in Hp. simpl in Hnd. apply orb_false_iff in Hnd. destruct Hnd as [Hd Hnd].
      rewrite no_dash_exact, pat_match_sem by (auto; rewrite Hp; auto). rewrite IHl; auto.
    - induction l as [|p l IHl]; simpl; [reflexivity|].
      pose proof (Forall_inv Hl) as Hp; pose proof (Forall_inv_tail Hl) as Hl'; cbv beta in Hp. rewrite IHl by (try assumption; intros; discriminate). f_equal.
      destruct (has_dash p) eqn:Ed.
      + fold (pat_match t p). apply pat_match_sem. rewrite Hp; auto.
      + rewrite no_dash_exact, pat_match_sem by (auto; rewrite Hp; auto). reflexivity. }
  revert Hum. induction cs as [|[ps v] cs IH]; intros Hum; simpl; [reflexivity|].
  pose proof (Forall_inv HF) as Hc; pose proof (Forall_inv_tail HF) as HF'. simpl in Hc.
  simpl in Hum.
  assert (Hsplit : um = true -> (match ps with None => True | Some l => existsb has_dash l = false end)
                  /\ use_match (map fst cs) = true).
  { intros ->. symmetry in Hum. apply andb_prop in Hum. destruct Hum as [H1 H2]. split; auto.
    destruct ps; auto. apply negb_true_iff in H1; auto. }
  rewrite Hcase by (auto; intros Hu; apply Hsplit; auto).
  destruct (case_sem t ps); [reflexivity|].
  destruct um.
  - apply IH; auto. symmetry; apply Hsplit; auto.
  - (* um = false: the remaining cases still use the masked comparison; generalise *)
    clear IH Hum Hsplit.
    induction cs as [|[ps' v'] cs IH2]; simpl; [reflexivity|].
    pose proof (Forall_inv HF') as Hc'; pose proof (Forall_inv_tail HF') as HF''. simpl in Hc'.
    rewrite Hcase by (auto; discriminate). destruct (case_sem t ps'); auto.
Qed.

(* ---------- C01: the compiled circuit expression computes the denotation ---------- *)
Lemma wf_cases_patterns t (cs : list (option (list pattern) * expr)) :
  forallb (fun c => wf_expr (snd c) &&
             match fst c with None => true | Some ps => forallb (pattern_ok (ewidth t)) ps end) cs = true ->
  forall (f : expr -> Z),
  Forall (fun c : option (list pattern) * Z =>
            match fst c with None => True | Some ps => Forall (fun p => Z.of_nat (length p) = ewidth t) ps end)
         (map (fun c => (fst c, f (snd c))) cs).
Proof.
  intros H f. apply Forall_forall. intros [ps v] Hin. apply in_map_iff in Hin.
  destruct Hin as (c & Heq & Hin). injection Heq as Hps Hv. subst ps. simpl.
  rewrite forallb_forall in H. specialize (H c Hin). apply andb_prop in H. destruct H as [_ H].
  destruct (fst c) as [l|]; [|exact I]. apply Forall_forall. intros p Hp.
  rewrite forallb_forall in H. specialize (H p Hp). unfold pattern_ok in H. lia.
Qed.

Lemma switch_of_ext t (cs : list (option (list pattern) * expr)) (f g : expr -> Z) :
  (forall c, In c cs -> f (snd c) = g (snd c)) ->
  switch_of t (map (fun c => (fst c, f (snd c))) cs) = switch_of t (map (fun c => (fst c, g (snd c))) cs).
Proof.
  induction cs as [|c cs IH]; intros H; simpl; [reflexivity|].
  rewrite (H c (or_introl eq_refl)), IH by (intros; apply H; right; auto). reflexivity.
Qed.

Theorem rtl_correct en e : wf_expr e = true -> env_ok en e ->
  norm (shape_of e) (eval_rtl en e) = denote en e.
Proof.
  induction e as [v s|i s|o a IHa|o a b IHa IHb|a lo hi IHa|a off w st IHa IHoff|l IH|t cs IHt IHcs]
    using expr_ind'; intros Hwf Henv.
  - simpl in *. rewrite const_norm_spec by auto. apply norm_idem; auto.
  - simpl in *. apply norm_id; auto.
  - (* unary *)
    pose proof (shape_sound en _ Hwf Henv) as [Hwfo Hro].
    simpl in Hwf. apply andb_prop in Hwf. destruct Hwf as [Hwa Hos]. simpl in Henv.
    destruct (shape_sound en a Hwa Henv) as [Hwsa Hra].
    specialize (IHa Hwa Henv). pose proof (wf_width_nonneg _ Hwsa) as Hwn.
    set (sa := shape_of a) in *. set (raw := eval_rtl en a) in *. set (da := denote en a) in *.
    simpl shape_of in *. simpl denote in *. simpl eval_rtl. fold sa raw da in Hro |- *.
    destruct o; cbn [rtl_op1 den_op1 op1_shape] in *.
    + (* ~ *) rewrite rmask_mask by auto. apply norm_eq_intro; auto.
      destruct (mask_congr (width sa) raw Hwn) as [k1 Hk1]. rewrite Hk1.
      destruct (norm_congr sa raw Hwsa) as [k2 Hk2]. rewrite IHa in Hk2. unfold Z.lnot.
      change (width {| width := width sa; sgn := sgn sa |}) with (width sa).
      destruct (sgn sa).
      * exists (k1 - k2). lia.
      * exists (1 + k1 - k2). lia.
    + (* neg *) rewrite rsign_norm, IHa by auto. apply norm_id; auto.
    + (* bool *) rewrite rmask_mask by auto. rewrite <- IHa, norm_zero_iff by auto. apply norm_id; auto.
      apply b2z_range.
    + (* r| *) rewrite rmask_mask by auto. rewrite <- IHa, norm_zero_iff by auto.
      rewrite (Z.eqb_sym 0). apply norm_id; [reflexivity|apply b2z_range].
    + (* r& *) rewrite rmask_mask by auto. rewrite Z.shiftl_1_l.
      rewrite <- IHa. fold (mask (width sa) (norm sa raw)). rewrite mask_norm by auto.
      rewrite (Z.eqb_sym (2 ^ width sa - 1)). apply norm_id; [reflexivity|apply b2z_range].
    + (* r^ *) rewrite rmask_mask by auto. rewrite <- IHa. fold (mask (width sa) (norm sa raw)).
      rewrite mask_norm by auto. apply norm_id; [reflexivity|].
      unfold in_range; simpl. pose proof (parity_range (mask (width sa) raw)). lia.
    + (* u *) rewrite norm_unsigned. rewrite <- IHa. fold (mask (width sa) (norm sa raw)).
      rewrite mask_norm by auto. reflexivity.
    + (* s *) rewrite norm_signed. rewrite <- IHa. apply cong_sext; [unfold ewidth in Hos; fold sa in Hos; lia|].
      apply cong_sym, cong_norm; auto.
  - (* binary *)
    pose proof (shape_sound en _ Hwf Henv) as [Hwfo Hro].
    simpl in Hwf. apply andb_prop in Hwf. destruct Hwf as [Hwf Hsh]. apply andb_prop in Hwf. destruct Hwf as [Hwa Hwb].
    simpl in Henv. destruct Henv as [Hea Heb].
    destruct (shape_sound en a Hwa Hea) as [Hwsa Hra]. destruct (shape_sound en b Hwb Heb) as [Hwsb Hrb].
    specialize (IHa Hwa Hea). specialize (IHb Hwb Heb).
    simpl eval_rtl. rewrite !rsign_norm, IHa, IHb by auto.
    simpl shape_of in *. simpl denote in *.
    assert (Heq : rtl_op2 o (denote en a) (denote en b) = den_op2 o (denote en a) (denote en b)).
    { destruct o; try reflexivity.
      - (* << *) simpl. assert (sgn (shape_of b) = false) as Hs by (destruct (sgn (shape_of b)); simpl in Hsh; auto; discriminate).
        unfold in_range in Hrb; rewrite Hs in Hrb. apply Z.shiftl_mul_pow2; lia.
      - (* >> *) simpl. assert (sgn (shape_of b) = false) as Hs by (destruct (sgn (shape_of b)); simpl in Hsh; auto; discriminate).
        unfold in_range in Hrb; rewrite Hs in Hrb. apply Z.shiftr_div_pow2; lia. }
    rewrite Heq. apply norm_id; auto.
  - (* slice *)
    simpl in Hwf. apply andb_prop in Hwf. destruct Hwf as [Hwf H3]. apply andb_prop in Hwf. destruct Hwf as [Hwf H2].
    apply andb_prop in Hwf. destruct Hwf as [Hwa H1]. simpl in Henv.
    destruct (shape_sound en a Hwa Henv) as [Hwsa Hra]. specialize (IHa Hwa Henv).
    simpl. rewrite norm_unsigned, rmask_mask, mask_idem by lia. unfold bits_at.
    rewrite Z.shiftr_div_pow2 by lia. fold (mask (hi - lo) (denote en a / 2 ^ lo)).
    apply cong_mask; [lia|]. intros i Hi. rewrite !testbit_div_pow2 by lia.
    rewrite <- IHa. unfold ewidth in H3. symmetry. apply cong_norm; auto. lia.
  - (* part *)
    simpl in Hwf. repeat (apply andb_prop in Hwf; destruct Hwf as [Hwf ?]).
    rename H into Hst, H0 into Hw0, H1 into Hus, H2 into Hwo. rename Hwf into Hwa.
    simpl in Henv. destruct Henv as [Hea Heo].
    destruct (shape_sound en a Hwa Hea) as [Hwsa Hra]. destruct (shape_sound en off Hwo Heo) as [Hwso Hro].
    specialize (IHa Hwa Hea). specialize (IHoff Hwo Heo).
    assert (sgn (shape_of off) = false) as Hs by (destruct (sgn (shape_of off)); simpl in Hus; auto; discriminate).
    simpl. rewrite norm_unsigned, !rmask_mask, mask_idem by (try lia; apply wf_width_nonneg; auto).
    rewrite rsign_norm, IHa by auto.
    assert (mask (ewidth off) (eval_rtl en off) = denote en off) as ->.
    { rewrite <- IHoff. unfold norm, ewidth. rewrite Hs. reflexivity. }
    unfold in_range in Hro; rewrite Hs in Hro.
    unfold bits_at. rewrite Z.shiftr_div_pow2 by nia. rewrite (Z.mul_comm st). reflexivity.
  - (* cat *)
    pose proof (shape_sound en _ Hwf Henv) as [Hwfo Hro].
    simpl in Hwf. apply env_ok_cat in Henv. rewrite forallb_forall in Hwf. rewrite Forall_forall in IH, Henv.
    assert (HF : forall f : expr -> Z, Forall (fun p : Z * Z => 0 <= snd p) (map (fun p => (f p, ewidth p)) l)).
    { intros f. apply Forall_forall. intros [v w] Hin. apply in_map_iff in Hin. destruct Hin as (p & Heq & Hin).
      injection Heq as Hv Hw. subst w. simpl.
      destruct (shape_sound en p (Hwf p Hin) (Henv p Hin)) as [Hw _]. apply wf_width_nonneg; auto. }
    cbn [eval_rtl denote]. rewrite rtl_cat_spec by (auto; lia). change (2 ^ 0) with 1. rewrite Z.mul_1_l.
    rewrite (cat_of_congr l (eval_rtl en) (denote en)).
    + apply norm_id; auto.
    + intros p Hin. rewrite <- (IH p Hin (Hwf p Hin) (Henv p Hin)).
      destruct (shape_sound en p (Hwf p Hin) (Henv p Hin)) as [Hw _].
      unfold ewidth. symmetry. apply mask_norm; auto.
  - (* switch *)
    pose proof (shape_sound en _ Hwf Henv) as [Hwfo Hro].
    simpl in Hwf. apply andb_prop in Hwf. destruct Hwf as [Hwt Hwcs].
    apply env_ok_sw in Henv. destruct Henv as [Het Hecs].
    destruct (shape_sound en t Hwt Het) as [Hwst Hrt]. specialize (IHt Hwt Het).
    pose proof (wf_width_nonneg _ Hwst) as Hwtn.
    cbn [eval_rtl denote]. rewrite rmask_mask by auto.
    assert (mask (ewidth t) (eval_rtl en t) = denote en t mod 2 ^ ewidth t) as Ht.
    { rewrite <- IHt. unfold ewidth. symmetry. apply mask_norm; auto. }
    rewrite Ht.
    rewrite (rtl_switch_sem _ _ _ (ewidth t)).
    + rewrite (switch_of_ext _ cs (fun e => rsign (shape_of e) (eval_rtl en e)) (denote en)).
      * apply norm_id; auto.
      * intros c Hin. rewrite forallb_forall in Hwcs. specialize (Hwcs c Hin).
        apply andb_prop in Hwcs. destruct Hwcs as [Hwc _].
        rewrite Forall_forall in IHcs, Hecs.
        destruct (shape_sound en (snd c) Hwc (Hecs c Hin)) as [Hw _].
        rewrite rsign_norm by auto. apply IHcs; auto.
    + apply Z.mod_pos_bound, pow2_pos; auto.
    + apply (wf_cases_patterns t cs Hwcs (fun e => rsign (shape_of e) (eval_rtl en e))).
    + rewrite map_map. simpl. reflexivity.
Qed.

(* ---------- C05 (reads): the testbench evaluator computes the same denotation ---------- *)
Lemma land_pow2_test m n : 0 <= n -> (Z.land m (2 ^ n) =? 0) = negb (Z.testbit m n).
Proof.
  intros Hn. destruct (Z.testbit m n) eqn:E; simpl.
  - apply Z.eqb_neq. intros H0.
    assert (Z.testbit (Z.land m (2 ^ n)) n = true) as Ht by (rewrite Z.land_spec, E, Z.pow2_bits_true; auto).
    rewrite H0, Z.bits_0 in Ht. discriminate.
  - apply Z.eqb_eq. apply Z.bits_inj'; intros i Hi. rewrite Z.land_spec, Z.bits_0.
    destruct (Z.eq_dec n i) as [<-|Hne]; [rewrite E; reflexivity|].
    rewrite Z.pow2_bits_false by auto. apply andb_false_r.
Qed.

Lemma tb_sign_fix w x : 1 <= w ->
  (let res := Z.land x (Z.shiftl 1 w - 1) in
   if negb (Z.land res (Z.shiftl 1 (w - 1)) =? 0) then Z.lor res (Z.shiftl (-1) (w - 1)) else res) = sext w x.
Proof.
  intros Hw. cbv zeta. rewrite mask_land by lia. rewrite Z.shiftl_1_l.
  rewrite land_pow2_test by lia. rewrite negb_involutive.
  rewrite <- (py_sign_sext w x Hw). unfold py_sign. rewrite shiftl_m1 by lia.
  assert ((Z.land (mask w x) (- 2 ^ (w - 1)) =? 0) = negb (Z.testbit (mask w x) (w - 1))) as ->.
  { destruct (Z.testbit (mask w x) (w - 1)) eqn:E; simpl.
    - apply Z.eqb_neq. intros H0.
      assert (Z.testbit (Z.land (mask w x) (- 2 ^ (w - 1))) (w - 1) = true) as Ht.
      { rewrite Z.land_spec, E, testbit_neg_pow2 by lia. replace (w - 1 <=? w - 1) with true by lia. reflexivity. }
      rewrite H0, Z.bits_0 in Ht. discriminate.
    - apply Z.eqb_eq. apply Z.bits_inj'; intros i Hi. rewrite Z.land_spec, Z.bits_0, testbit_neg_pow2 by lia.
      destruct (Z_lt_le_dec i (w - 1)); [replace (w - 1 <=? i) with false by lia; apply andb_false_r|].
      destruct (Z.eq_dec i (w - 1)) as [->|]; [rewrite E; reflexivity|].
      rewrite testbit_mask by lia. replace (i <? w) with false by lia. reflexivity. }
  destruct (Z.testbit (mask w x) (w - 1)); reflexivity.
Qed.

Lemma tb_cat_spec ps : forall res pos, 0 <= pos -> 0 <= res < 2 ^ pos -> Forall (fun p => 0 <= snd p) ps ->
  tb_cat ps res pos = res + 2 ^ pos * cat_of ps.
Proof.
  induction ps as [|[v w] ps IH]; intros res pos Hpos Hres HF; simpl.
  - lia.
  - pose proof (Forall_inv HF) as Hw; pose proof (Forall_inv_tail HF) as HF'. simpl in Hw.
    rewrite mask_land by auto. pose proof (mask_range w v Hw) as Hm. unfold mask in *.
    rewrite lor_shiftl_add by auto.
    rewrite IH; auto; try lia.
    + rewrite Z.pow_add_r by lia. lia.
    + rewrite Z.pow_add_r by lia. pose proof (pow2_pos pos Hpos). nia.
Qed.

Lemma land_mask_low m x w : 0 <= w -> 0 <= m < 2 ^ w -> Z.land m x = Z.land m (x mod 2 ^ w).
Proof.
  intros Hw Hm. apply Z.bits_inj'; intros i Hi. rewrite !Z.land_spec, Z.testbit_mod_pow2 by auto.
  destruct (i <? w) eqn:E; simpl; auto.
  rewrite <- (Z.mod_small m (2 ^ w)) by auto. rewrite Z.mod_pow2_bits_high by lia. reflexivity.
Qed.

Lemma tb_switch_sem t (cs : list (option (list pattern) * Z)) w : 0 <= w ->
  Forall (fun c => match fst c with None => True | Some ps => Forall (fun p => Z.of_nat (length p) = w) ps end) cs ->
  tb_switch t cs = switch_of (t mod 2 ^ w) cs.
Proof.
  intros Hw HF. induction cs as [|[ps v] cs IH]; simpl; [reflexivity|].
  pose proof (Forall_inv HF) as Hc; pose proof (Forall_inv_tail HF) as HF'. simpl in Hc.
  rewrite IH by auto.
  assert (tb_case_match t ps = case_sem (t mod 2 ^ w) ps) as ->; [|reflexivity].
  destruct ps as [l|]; [|reflexivity]. unfold tb_case_match; simpl.
  induction l as [|p l IHl]; simpl; [reflexivity|].
  pose proof (Forall_inv Hc) as Hp; pose proof (Forall_inv_tail Hc) as Hl'. cbv beta in Hp.
  rewrite IHl by auto. f_equal.
  rewrite <- (pat_match_sem p (t mod 2 ^ w)) by (rewrite Hp; apply Z.mod_pos_bound, pow2_pos; auto).
  unfold pat_match. rewrite (land_mask_low (pat_mask p) t w); auto.
  pose proof (pat_mask_range p). rewrite Hp in *. auto.
Qed.

Theorem eval_tb_denote en e : wf_expr e = true -> env_ok en e -> eval_tb en e = denote en e.
Proof.
  induction e as [v s|i s|o a IHa|o a b IHa IHb|a lo hi IHa|a off w st IHa IHoff|l IH|t cs IHt IHcs]
    using expr_ind'; intros Hwf Henv.
  - simpl in *. apply const_norm_spec; auto.
  - reflexivity.
  - simpl in Hwf. apply andb_prop in Hwf. destruct Hwf as [Hwa Hos]. simpl in Henv.
    destruct (shape_sound en a Hwa Henv) as [Hwsa Hra]. pose proof (wf_width_nonneg _ Hwsa) as Hwn.
    simpl. rewrite (IHa Hwa Henv). set (sa := shape_of a) in *. set (da := denote en a) in *.
    destruct o; cbn [tb_op1 den_op1 op1_shape width sgn].
    + (* ~ *) destruct (sgn sa) eqn:Es; [unfold Z.lnot; lia|].
      rewrite mask_land by auto. unfold Z.lnot. unfold in_range in Hra; rewrite Es in Hra.
      replace (Z.pred (- da)) with ((2 ^ width sa - 1 - da) + (-1) * 2 ^ width sa) by lia.
      rewrite mask_add_mul by auto. apply mask_small. lia.
    + reflexivity.
    + reflexivity.
    + reflexivity.
    + rewrite mask_land by auto. rewrite Z.shiftl_1_l. reflexivity.
    + rewrite mask_land by auto. reflexivity.
    + apply mask_land; auto.
    + apply tb_sign_fix. unfold ewidth in Hos; fold sa in Hos. lia.
  - simpl in Hwf. apply andb_prop in Hwf. destruct Hwf as [Hwf Hsh]. apply andb_prop in Hwf. destruct Hwf as [Hwa Hwb].
    simpl in Henv. destruct Henv as [Hea Heb].
    destruct (shape_sound en b Hwb Heb) as [Hwsb Hrb].
    simpl. rewrite (IHa Hwa Hea), (IHb Hwb Heb).
    destruct o; try reflexivity.
    + simpl. assert (sgn (shape_of b) = false) as Hs by (destruct (sgn (shape_of b)); simpl in Hsh; auto; discriminate).
      unfold in_range in Hrb; rewrite Hs in Hrb. apply Z.shiftl_mul_pow2; lia.
    + simpl. assert (sgn (shape_of b) = false) as Hs by (destruct (sgn (shape_of b)); simpl in Hsh; auto; discriminate).
      unfold in_range in Hrb; rewrite Hs in Hrb. apply Z.shiftr_div_pow2; lia.
  - simpl in Hwf. apply andb_prop in Hwf. destruct Hwf as [Hwf H3]. apply andb_prop in Hwf. destruct Hwf as [Hwf H2].
    apply andb_prop in Hwf. destruct Hwf as [Hwa H1]. simpl in Henv.
    simpl. rewrite (IHa Hwa Henv). rewrite mask_land by lia. rewrite Z.shiftr_div_pow2 by lia. reflexivity.
  - simpl in Hwf. repeat (apply andb_prop in Hwf; destruct Hwf as [Hwf ?]).
    rename H into Hst, H0 into Hw0, H1 into Hus, H2 into Hwo. rename Hwf into Hwa.
    simpl in Henv. destruct Henv as [Hea Heo].
    destruct (shape_sound en off Hwo Heo) as [Hwso Hro].
    assert (sgn (shape_of off) = false) as Hs by (destruct (sgn (shape_of off)); simpl in Hus; auto; discriminate).
    unfold in_range in Hro; rewrite Hs in Hro.
    simpl. rewrite (IHa Hwa Hea), (IHoff Hwo Heo). rewrite mask_land by lia.
    rewrite Z.shiftr_div_pow2 by nia. reflexivity.
  - simpl in Hwf. apply env_ok_cat in Henv. rewrite forallb_forall in Hwf. rewrite Forall_forall in IH, Henv.
    assert (HF : forall f : expr -> Z, Forall (fun p : Z * Z => 0 <= snd p) (map (fun p => (f p, ewidth p)) l)).
    { intros f. apply Forall_forall. intros [v w] Hin. apply in_map_iff in Hin. destruct Hin as (p & Heq & Hin).
      injection Heq as Hv Hw. subst w. simpl.
      destruct (shape_sound en p (Hwf p Hin) (Henv p Hin)) as [Hw _]. apply wf_width_nonneg; auto. }
    cbn [eval_tb denote]. rewrite tb_cat_spec by (auto; simpl; lia). change (2 ^ 0) with 1.
    rewrite Z.mul_1_l, Z.add_0_l. apply cat_of_congr. intros p Hin. rewrite (IH p Hin (Hwf p Hin) (Henv p Hin)). reflexivity.
  - simpl in Hwf. apply andb_prop in Hwf. destruct Hwf as [Hwt Hwcs].
    apply env_ok_sw in Henv. destruct Henv as [Het Hecs].
    destruct (shape_sound en t Hwt Het) as [Hwst _]. pose proof (wf_width_nonneg _ Hwst) as Hwtn.
    cbn [eval_tb denote]. rewrite (IHt Hwt Het).
    rewrite (tb_switch_sem _ _ (ewidth t)); auto.
    + apply switch_of_ext. intros c Hin. rewrite forallb_forall in Hwcs. specialize (Hwcs c Hin).
      apply andb_prop in Hwcs. destruct Hwcs as [Hwc _]. rewrite Forall_forall in IHcs, Hecs. apply IHcs; auto.
    + apply (wf_cases_patterns t cs Hwcs (eval_tb en)).
Qed.

(* C01+C05: reading an expression in a testbench gives what a circuit computing it gives *)
Corollary tb_read_agrees_with_circuit en e : wf_expr e = true -> env_ok en e ->
  eval_tb en e = norm (shape_of e) (eval_rtl en e).
Proof. intros. rewrite rtl_correct, eval_tb_denote; auto. Qed.

(* driving a signal of shape s with e: truncation / extension by e's own signedness *)
Theorem rtl_drive_spec s en e : wf_shape s = true -> wf_expr e = true -> env_ok en e ->
  rtl_drive s en e = norm s (denote en e).
Proof.
  intros Hs Hwf Henv. unfold rtl_drive. destruct (shape_sound en e Hwf Henv) as [Hw _].
  rewrite !rsign_norm by auto. rewrite rtl_correct by auto. reflexivity.
Qed.

(* GenEqFifo.v — the step functions regenerated from amaranth/lib/fifo.py by translator/unit_fifo.py
   (Gen/FifoGen.v) equal the hand-written model (Model/Fifo.v) for all widths, depths, states and inputs. *)
From Coq Require Import ZArith List Bool Lia.
From V.Model Require Import Bits Shape Fifo.
From V.Gen Require FifoGen.
Import ListNotations.
Open Scope Z_scope.

Lemma gen_sync_step_eq w d c i : FifoGen.g_sync_step w d c i = sync_step w d c i.
Proof.
  unfold FifoGen.g_sync_step, sync_step, sync_out, core_step, incr.
  destruct (d =? 0) eqn:E0.
  - destruct c; reflexivity.
  - cbv zeta. cbn [w_rdy r_rdy r_data level w_level r_level].
    f_equal. f_equal.
    all: try (destruct (d =? 2 ^ range_width d); reflexivity).
    all: try (rewrite (andb_comm (w_en i)); reflexivity).
    (* nothing is left for the source as it stands; semantically neutral rewrites of one field end here *)
    all: destruct (w_en i), (r_en i), (lvl c =? d), (lvl c =? 0), (d =? 2 ^ range_width d);
      cbn [andb negb orb]; reflexivity.
Qed.

Lemma gen_buf_step_eq w d s i : FifoGen.g_buf_step w d s i = buf_step w d s i.
Proof.
  unfold FifoGen.g_buf_step, buf_step, buf_out, core_step, incr.
  destruct (d =? 0) eqn:E0.
  - destruct s as [[p c l r] rd rr bl]; reflexivity.
  - destruct (d =? 1) eqn:E1.
    + apply Z.eqb_eq in E1. subst d.
      change (mask (range_width (1 + 1)) 0) with 0. change (mask (range_width (1 + 1)) 1) with 1.
      cbv zeta. cbn [w_rdy r_rdy r_data level w_level r_level].
      destruct s as [[p c l r] rd rr bl]; cbn [inner rdata rrdy blevel produce consume lvl rows].
      destruct (w_en i), (r_en i), (bl =? 0), (bl =? 1); cbn [andb negb orb]; reflexivity.
    + cbv zeta. cbn [w_rdy r_rdy r_data level w_level r_level].
      f_equal. f_equal. f_equal.
      all: try (destruct (d - 1 =? 2 ^ range_width (d - 1)); reflexivity).
      all: destruct (w_en i), (r_en i), (rrdy s), (lvl (inner s) =? d - 1), (lvl (inner s) =? 0),
        (d - 1 =? 2 ^ range_width (d - 1)); cbn [andb negb orb]; reflexivity.
Qed.

(* FifoP.v — SyncFIFO / SyncFIFOBuffered (Model/Fifo.v) refine a bounded queue: invariants,
   one-step simulation, lifting over input lists, liveness. *)
From Coq Require Import ZArith List Bool Lia ZifyBool.
From V.Model Require Import Bits Shape Fifo.
From V.Proofs Require Import BitsP.
Import ListNotations.
Open Scope Z_scope.

(* ------------------------------------------------------------------ register widths *)
Lemma range_width_1 : range_width 1 = 0.
Proof. reflexivity. Qed.

Lemma bit_length_ge1 n : 0 < n -> 1 <= bit_length n.
Proof.
  intros H. unfold bit_length. destruct (n =? 0) eqn:E; [lia|].
  pose proof (Z.log2_nonneg (Z.abs n)). lia.
Qed.

Lemma range_width_ge2 n : 2 <= n -> range_width n = bit_length (n - 1).
Proof.
  intros H. unfold range_width, cast_range.
  assert (Hl : range_len 0 n 1 = n).
  { unfold range_len. rewrite Z.div_1_r.
    destruct (0 <? 1) eqn:A; destruct (0 <? n) eqn:B; lia. }
  rewrite Hl. unfold range_nth.
  replace (0 + (n - 1) * 1) with (n - 1) by lia.
  pose proof (bit_length_ge1 (n - 1) ltac:(lia)) as Hb.
  unfold bits_for.
  repeat match goal with |- context[if ?b then _ else _] => destruct b eqn:? end;
    cbn [width]; lia.
Qed.

Lemma range_width_bound d : 1 <= d -> 0 <= range_width d /\ d <= 2 ^ range_width d.
Proof.
  intros H. destruct (Z.eq_dec d 1) as [->|Hn].
  - rewrite range_width_1. cbn. lia.
  - rewrite range_width_ge2 by lia. split; [apply bit_length_nonneg|].
    pose proof (bit_length_upper (d - 1) ltac:(lia)). lia.
Qed.

Lemma incr_spec d x : 1 <= d -> 0 <= x < d -> incr (range_width d) x d = (x + 1) mod d.
Proof.
  intros Hd Hx. destruct (range_width_bound d Hd) as [Hw Hb].
  unfold incr, mask. set (pw := range_width d) in *.
  destruct (d =? 2 ^ pw) eqn:E.
  - apply Z.eqb_eq in E. rewrite <- E. reflexivity.
  - apply Z.eqb_neq in E. destruct (x =? d - 1) eqn:E1.
    + apply Z.eqb_eq in E1. subst x. replace (d - 1 + 1) with d by lia.
      rewrite Z_mod_same_full. apply Z.mod_0_l. lia.
    + apply Z.eqb_neq in E1. rewrite !Z.mod_small; lia.
Qed.

Lemma level_fits d l : 0 <= d -> 0 <= l <= d -> mask (range_width (d + 1)) l = l.
Proof.
  intros Hd Hl. destruct (range_width_bound (d + 1) ltac:(lia)) as [Hw Hb].
  apply mask_small. lia.
Qed.

(* ------------------------------------------------------------------ rows *)
Lemma upd_length l n v : length (upd l n v) = length l.
Proof. revert n; induction l as [|a l IH]; intros [|n]; simpl; auto. Qed.

Lemma nth_upd_same l n v : (n < length l)%nat -> nth n (upd l n v) 0 = v.
Proof.
  revert n; induction l as [|a l IH]; intros [|n] H; simpl in *; try lia; auto.
  all: try (apply IH; lia).
Qed.

Lemma nth_upd_other l n m v : n <> m -> nth n (upd l m v) 0 = nth n l 0.
Proof.
  revert n m; induction l as [|a l IH]; intros [|n] [|m] H; simpl; auto; try lia.
  all: try (apply IH; lia).
Qed.

Lemma add_mod_inj d c i j :
  0 < d -> 0 <= i < d -> 0 <= j < d -> (c + i) mod d = (c + j) mod d -> i = j.
Proof.
  intros Hd Hi Hj E.
  pose proof (Z.div_mod (c + i) d ltac:(lia)) as H1.
  pose proof (Z.div_mod (c + j) d ltac:(lia)) as H2.
  rewrite E in H1.
  assert (H3 : i - j = d * ((c + i) / d - (c + j) / d)) by lia.
  set (k := (c + i) / d - (c + j) / d) in H3. clearbody k. clear H1 H2 E.
  assert (Hk : k <= -1 \/ k = 0 \/ 1 <= k) by lia.
  destruct Hk as [Hk|[Hk|Hk]]; [nia|subst k; lia|nia].
Qed.

(* ------------------------------------------------------------------ cyclic windows *)
Lemma window_length rws d c n : length (window rws d c n) = n.
Proof. unfold window. rewrite map_length, seq_length. reflexivity. Qed.

Lemma window_snoc rws d c n :
  window rws d c (S n) = window rws d c n ++ [mem_read rws ((c + Z.of_nat n) mod d)].
Proof. unfold window. rewrite seq_S, map_app. reflexivity. Qed.

Lemma window_cons rws d c n : d <> 0 ->
  window rws d c (S n) = mem_read rws (c mod d) :: window rws d ((c + 1) mod d) n.
Proof.
  intros Hd. unfold window. cbn [seq map]. f_equal.
  - f_equal. f_equal. cbn. lia.
  - rewrite <- seq_shift, map_map. apply map_ext. intros i. f_equal.
    rewrite Z.add_mod_idemp_l by exact Hd. f_equal. lia.
Qed.

Lemma window_upd_other rws d c n p v :
  0 < d -> 0 <= p ->
  (forall i, (i < n)%nat -> (c + Z.of_nat i) mod d <> p) ->
  window (mem_write rws p v) d c n = window rws d c n.
Proof.
  intros Hd Hp H. unfold window. apply map_ext_in. intros i Hi. apply in_seq in Hi.
  unfold mem_read, mem_write. apply nth_upd_other. intro E.
  apply (H i); [lia|].
  apply Z2Nat.inj in E; auto. apply Z.mod_pos_bound; lia.
Qed.

(* ------------------------------------------------------------------ the pointer/level/storage block *)
Definition core_inv (d : Z) (c : core) : Prop :=
  Z.of_nat (length (rows c)) = d /\ 0 <= consume c < d /\ 0 <= lvl c <= d /\
  produce c = (consume c + lvl c) mod d.

Definition wr (d : Z) (c : core) (v : Z) : core :=
  Core ((produce c + 1) mod d) (consume c) (lvl c + 1) (mem_write (rows c) (produce c) v).
Definition rd (d : Z) (c : core) : core :=
  Core (produce c) ((consume c + 1) mod d) (lvl c - 1) (rows c).

Lemma core_inv_produce d c : 1 <= d -> core_inv d c -> 0 <= produce c < d.
Proof. intros Hd (_ & _ & _ & Hp). rewrite Hp. apply Z.mod_pos_bound; lia. Qed.

Lemma core_abs_length d c : 0 <= lvl c -> qlen (core_abs d c) = lvl c.
Proof. intros H. unfold qlen, core_abs. rewrite window_length. lia. Qed.

Lemma wr_ok d c v : 1 <= d -> core_inv d c -> lvl c < d ->
  core_inv d (wr d c v) /\ core_abs d (wr d c v) = core_abs d c ++ [v].
Proof.
  intros Hd Hinv Hlt. pose proof (core_inv_produce d c Hd Hinv) as Hpr.
  destruct Hinv as (Hlen & Hc & Hl & Hp). split.
  - unfold core_inv, wr; cbn [rows consume lvl produce]. unfold mem_write. rewrite upd_length.
    repeat split; try lia.
    rewrite Hp, Z.add_mod_idemp_l by lia. f_equal; lia.
  - unfold core_abs, wr; cbn [rows consume lvl produce].
    replace (Z.to_nat (lvl c + 1)) with (S (Z.to_nat (lvl c))) by lia.
    rewrite window_snoc. rewrite Z2Nat.id by lia. rewrite <- Hp. f_equal.
    + apply window_upd_other; try lia.
      intros i Hi. rewrite Hp. intro E. apply add_mod_inj in E; lia.
    + unfold mem_read, mem_write. rewrite nth_upd_same; auto. lia.
Qed.

Lemma rd_ok d c : 1 <= d -> core_inv d c -> 0 < lvl c ->
  core_inv d (rd d c) /\ core_abs d c = mem_read (rows c) (consume c) :: core_abs d (rd d c).
Proof.
  intros Hd (Hlen & Hc & Hl & Hp) Hlt.
  pose proof (Z.mod_pos_bound (consume c + 1) d ltac:(lia)) as Hb. split.
  - unfold core_inv, rd; cbn [rows consume lvl produce].
    repeat split; try lia.
    rewrite Hp, Z.add_mod_idemp_l by lia. f_equal; lia.
  - unfold core_abs, rd; cbn [rows consume lvl produce].
    replace (Z.to_nat (lvl c)) with (S (Z.to_nat (lvl c - 1))) by lia.
    rewrite window_cons by lia. rewrite Z.mod_small by lia. reflexivity.
Qed.

Lemma core_step_norm w d c dw wd dr :
  1 <= d -> core_inv d c -> (dw = true -> lvl c < d) -> (dr = true -> 0 < lvl c) ->
  core_step w d c dw wd dr =
  (if dr then rd d (if dw then wr d c (mask w wd) else c) else (if dw then wr d c (mask w wd) else c)).
Proof.
  intros Hd Hinv Hw Hr. pose proof (core_inv_produce d c Hd Hinv) as Hpr.
  destruct Hinv as (Hlen & Hc & Hl & Hp).
  unfold core_step. rewrite !incr_spec by lia.
  destruct dw, dr; cbn [andb negb]; unfold wr, rd; cbn [produce consume lvl rows].
  - f_equal. lia.
  - specialize (Hw eq_refl). f_equal. apply level_fits; lia.
  - specialize (Hr eq_refl). f_equal. apply level_fits; lia.
  - destruct c; reflexivity.
Qed.

Lemma core_step_ok w d c dw wd dr :
  1 <= d -> core_inv d c -> (dw = true -> lvl c < d) -> (dr = true -> 0 < lvl c) ->
  core_inv d (core_step w d c dw wd dr) /\
  core_abs d (core_step w d c dw wd dr) = q_next w (core_abs d c) dw wd dr.
Proof.
  intros Hd Hinv Hw Hr. rewrite core_step_norm by assumption. unfold q_next.
  destruct dw.
  - destruct (wr_ok d c (mask w wd) Hd Hinv (Hw eq_refl)) as [Hi1 Ha1].
    destruct dr.
    + assert (H0 : 0 < lvl (wr d c (mask w wd))).
      { unfold wr; cbn [lvl]. destruct Hinv as (_ & _ & Hl & _). lia. }
      destruct (rd_ok d _ Hd Hi1 H0) as [Hi2 Ha2]. split; [exact Hi2|].
      rewrite <- Ha1, Ha2. reflexivity.
    + split; [exact Hi1|exact Ha1].
  - rewrite app_nil_r. destruct dr.
    + destruct (rd_ok d c Hd Hinv (Hr eq_refl)) as [Hi2 Ha2]. split; [exact Hi2|].
      rewrite Ha2. reflexivity.
    + split; [exact Hinv|reflexivity].
Qed.

Lemma core_abs_hd d c : 1 <= d -> core_inv d c -> 0 < lvl c ->
  exists t, core_abs d c = mem_read (rows c) (consume c) :: t.
Proof. intros Hd Hinv Hl. destruct (rd_ok d c Hd Hinv Hl) as [_ H]. eauto. Qed.

Lemma core_abs_nil d c : lvl c = 0 -> core_abs d c = [].
Proof. intros H. unfold core_abs. rewrite H. reflexivity. Qed.

Lemma core_init_inv d : 1 <= d -> core_inv d (core_init d).
Proof.
  intros Hd. unfold core_inv, core_init; cbn [rows consume lvl produce].
  rewrite repeat_length. repeat split; try lia. all: try (rewrite Z.mod_0_l; lia).
Qed.

(* ------------------------------------------------------------------ generic lifting over input lists *)
Section Lift.
  Context {S : Type}.
  Variable step : S -> inp -> S * out.
  Variable inv : S -> Prop.

  Hypothesis inv_step : forall s i, inv s -> inv (fst (step s i)).

  Lemma reach_inv : forall ins s, inv s -> inv (reach step s ins).
  Proof. induction ins as [|i r IH]; intros s Hs; cbn [reach]; auto. Qed.

  Lemma reach_app : forall a b s, reach step s (a ++ b) = reach step (reach step s a) b.
  Proof. induction a as [|i r IH]; intros b s; cbn [reach app]; auto. Qed.

  Variable abs : S -> list Z.
  Variable w : Z.
  Hypothesis step_abs : forall s i, inv s ->
    let o := snd (step s i) in
    (r_rdy o = true -> exists t, abs s = r_data o :: t) /\
    abs (fst (step s i)) = q_next w (abs s) (w_rdy o && w_en i) (w_data i) (r_rdy o && r_en i).

  (* what is held now, followed by what is accepted from now on, is what is delivered
     from now on followed by what is held at the end: order, no loss, no duplication *)
  Lemma order_from : forall ins s, inv s ->
    abs s ++ accepted w ins (run step s ins) =
    delivered ins (run step s ins) ++ abs (reach step s ins).
  Proof.
    induction ins as [|i r IH]; intros s Hs; cbn [run reach accepted delivered].
    - rewrite app_nil_r. reflexivity.
    - destruct (step_abs s i Hs) as [Hr Ha].
      specialize (IH _ (inv_step s i Hs)). rewrite Ha in IH. unfold q_next in IH.
      set (o := snd (step s i)) in *.
      set (W := if w_rdy o && w_en i then [mask w (w_data i)] else []) in *.
      destruct (r_rdy o && r_en i) eqn:Erd.
      + apply andb_true_iff in Erd. destruct Erd as [Er _].
        destruct (Hr Er) as [t Ht]. rewrite Ht in *. cbn [app tl] in *.
        f_equal. rewrite <- IH. rewrite app_assoc. reflexivity.
      + cbn [app]. unfold id in IH. rewrite <- IH. rewrite app_assoc. reflexivity.
  Qed.
End Lift.

(* ------------------------------------------------------------------ SyncFIFO *)
Definition sync_inv (d : Z) (c : core) : Prop := d = 0 \/ (1 <= d /\ core_inv d c).

Lemma sync_init_inv d : 0 <= d -> sync_inv d (core_init d).
Proof.
  intros Hd. destruct (Z.eq_dec d 0); [left; auto|right]. split; [lia|]. apply core_init_inv; lia.
Qed.

Lemma sync_init_abs d : sync_abs d (core_init d) = [].
Proof. unfold sync_abs. destruct (d =? 0); reflexivity. Qed.

Lemma sync_step_out w d c i : snd (sync_step w d c i) = sync_out d c.
Proof. unfold sync_step. destruct (d =? 0); reflexivity. Qed.

(* one-step simulation of the bounded queue *)
Lemma sync_step_sim w d c i : 0 <= d -> sync_inv d c ->
  sync_inv d (fst (sync_step w d c i)) /\
  sync_abs d (fst (sync_step w d c i)) = fst (q_step w d (sync_abs d c) i) /\
  vis (snd (sync_step w d c i)) = snd (q_step w d (sync_abs d c) i).
Proof.
  intros Hd [H0|[H1 Hinv]].
  - subst d. unfold sync_step, sync_abs, sync_out. cbn. split; [left; reflexivity|].
    split; reflexivity.
  - assert (E0 : (d =? 0) = false) by lia.
    pose proof Hinv as (Hlen & Hc & Hl & Hp).
    pose proof (core_abs_length d c ltac:(lia)) as Hq.
    unfold sync_step, sync_out, sync_abs, q_step. rewrite !E0. cbn [fst snd w_rdy r_rdy].
    assert (Ew : negb (lvl c =? d) = (qlen (core_abs d c) <? d)) by (rewrite Hq; lia).
    assert (Er : negb (lvl c =? 0) = negb (qlen (core_abs d c) =? 0)) by (rewrite Hq; reflexivity).
    cbn [q_out w_rdy r_rdy]. rewrite <- Ew, <- Er.
    destruct (core_step_ok w d c (negb (lvl c =? d) && w_en i) (w_data i)
                (negb (lvl c =? 0) && r_en i) H1 Hinv) as [Hi Ha].
    { intros H. apply andb_true_iff in H. lia. }
    { intros H. apply andb_true_iff in H. lia. }
    split; [right; split; assumption|]. split; [exact Ha|].
    unfold vis, q_out; cbn [w_rdy r_rdy r_data level w_level r_level].
    rewrite <- Ew, <- Er, Hq. f_equal.
    destruct (lvl c =? 0) eqn:E; cbn [negb].
    + rewrite core_abs_nil by lia. reflexivity.
    + destruct (core_abs_hd d c H1 Hinv ltac:(lia)) as [t Ht]. rewrite Ht. reflexivity.
Qed.

Lemma sync_reach_inv w d ins : 0 <= d -> sync_inv d (sync_reach w d ins).
Proof.
  intros Hd. unfold sync_reach. apply reach_inv; [|apply sync_init_inv; assumption].
  intros s i Hs. apply (sync_step_sim w d s i Hd Hs).
Qed.

Lemma sync_trace_from w d : 0 <= d -> forall ins c, sync_inv d c ->
  map vis (run (sync_step w d) c ins) = run (q_step w d) (sync_abs d c) ins.
Proof.
  intros Hd. induction ins as [|i r IH]; intros c Hc; cbn [run map]; [reflexivity|].
  destruct (sync_step_sim w d c i Hd Hc) as (Hi & Ha & Ho).
  rewrite Ho, (IH _ Hi), Ha. reflexivity.
Qed.

Theorem sync_trace_eq w d ins : 0 <= d -> map vis (sync_run w d ins) = q_run w d ins.
Proof.
  intros Hd. unfold sync_run, q_run. rewrite sync_trace_from by (auto using sync_init_inv).
  rewrite sync_init_abs. reflexivity.
Qed.

(* the clauses of the property, at an arbitrary reachable state *)
Theorem sync_refines_queue w d ins i : 0 <= d ->
  let c := sync_reach w d ins in
  let o := snd (sync_step w d c i) in
  let c' := fst (sync_step w d c i) in
  let q := sync_abs d c in
  (r_rdy o = true <-> q <> []) /\
  (r_rdy o = true -> exists t, q = r_data o :: t) /\
  (w_rdy o = true <-> qlen q < d) /\
  level o = qlen q /\ w_level o = qlen q /\ r_level o = qlen q /\
  qlen q <= d /\
  sync_abs d c' = q_next w q (w_rdy o && w_en i) (w_data i) (r_rdy o && r_en i).
Proof.
  intros Hd c o c' q.
  pose proof (sync_reach_inv w d ins Hd) as Hinv. fold c in Hinv.
  destruct (sync_step_sim w d c i Hd Hinv) as (Hi & Ha & Ho). fold o c' q in Hi, Ha, Ho.
  unfold q_step in Ha, Ho. cbn [fst snd] in Ha, Ho.
  assert (Hw : w_rdy o = (qlen q <? d)) by (apply (f_equal w_rdy) in Ho; exact Ho).
  assert (Hr : r_rdy o = negb (qlen q =? 0)) by (apply (f_equal r_rdy) in Ho; exact Ho).
  assert (Hdt : (if r_rdy o then r_data o else 0) = hd 0 q) by (apply (f_equal r_data) in Ho; exact Ho).
  assert (Hl1 : level o = qlen q) by (apply (f_equal level) in Ho; exact Ho).
  assert (Hl2 : w_level o = qlen q) by (apply (f_equal w_level) in Ho; exact Ho).
  assert (Hl3 : r_level o = qlen q) by (apply (f_equal r_level) in Ho; exact Ho).
  assert (Hcap : qlen q <= d).
  { unfold q, sync_abs. destruct (d =? 0) eqn:E0; [cbn; lia|].
    destruct Hinv as [?|[H1 Hc]]; [lia|]. destruct Hc as (_ & _ & Hl & _).
    rewrite core_abs_length; lia. }
  repeat split; auto.
  - intros H E. rewrite Hr, E in H. discriminate.
  - intros H. rewrite Hr. destruct q; [congruence|]. reflexivity.
  - intros H. rewrite H in Hdt. rewrite Hr in H. destruct q as [|x t]; [discriminate|].
    exists t. cbn in Hdt. congruence.
  - rewrite Hw. lia.
  - rewrite Hw. lia.
  - rewrite Ha. unfold q_out; cbn [w_rdy r_rdy]. rewrite <- Hw, <- Hr. reflexivity.
Qed.

Lemma sync_step_abs w d s i : 0 <= d -> sync_inv d s ->
  let o := snd (sync_step w d s i) in
  (r_rdy o = true -> exists t, sync_abs d s = r_data o :: t) /\
  sync_abs d (fst (sync_step w d s i)) =
    q_next w (sync_abs d s) (w_rdy o && w_en i) (w_data i) (r_rdy o && r_en i).
Proof.
  intros Hd Hinv o.
  destruct (sync_step_sim w d s i Hd Hinv) as (Hi & Ha & Ho). fold o in Ho.
  unfold q_step in Ha, Ho. cbn [fst snd] in Ha, Ho.
  assert (Hw : w_rdy o = (qlen (sync_abs d s) <? d)) by (apply (f_equal w_rdy) in Ho; exact Ho).
  assert (Hr : r_rdy o = negb (qlen (sync_abs d s) =? 0)) by (apply (f_equal r_rdy) in Ho; exact Ho).
  assert (Hdt : (if r_rdy o then r_data o else 0) = hd 0 (sync_abs d s))
    by (apply (f_equal r_data) in Ho; exact Ho).
  split.
  - intros H. rewrite H in Hdt. rewrite Hr in H. destruct (sync_abs d s) as [|x t]; [discriminate|].
    exists t. cbn in Hdt. congruence.
  - rewrite Ha. unfold q_out; cbn [w_rdy r_rdy]. rewrite <- Hw, <- Hr. reflexivity.
Qed.

Theorem sync_order w d ins : 0 <= d ->
  accepted w ins (sync_run w d ins) =
  delivered ins (sync_run w d ins) ++ sync_abs d (sync_reach w d ins).
Proof.
  intros Hd. unfold sync_run, sync_reach.
  pose proof (order_from (sync_step w d) (sync_inv d)
                (fun s i Hs => proj1 (sync_step_sim w d s i Hd Hs))
                (sync_abs d) w
                (fun s i Hs => sync_step_abs w d s i Hd Hs)
                ins (core_init d) (sync_init_inv d Hd)) as H.
  rewrite sync_init_abs in H. exact H.
Qed.

(* ------------------------------------------------------------------ SyncFIFOBuffered *)
Definition buf_inv (d : Z) (s : bstate) : Prop :=
  d = 0 \/ (d = 1 /\ (blevel s = 0 \/ blevel s = 1)) \/ (2 <= d /\ core_inv (d - 1) (inner s)).

Lemma buf_init_inv d : 0 <= d -> buf_inv d (buf_init d).
Proof.
  intros Hd. unfold buf_inv.
  destruct (Z.eq_dec d 0); [left; auto|right].
  destruct (Z.eq_dec d 1); [left; split; auto; left; reflexivity|right].
  split; [lia|]. unfold buf_init; cbn [inner]. apply core_init_inv; lia.
Qed.

Lemma buf_init_abs d : buf_abs d (buf_init d) = [].
Proof. unfold buf_abs. destruct (d =? 0); [reflexivity|]. destruct (d =? 1); reflexivity. Qed.

Lemma buf_step_out w d s i : snd (buf_step w d s i) = buf_out d s.
Proof. unfold buf_step. destruct (d =? 0); [reflexivity|]. destruct (d =? 1); reflexivity. Qed.

Lemma b2z_qlen (b : bool) x : qlen (if b then [x] else []) = b2z b.
Proof. destruct b; reflexivity. Qed.

Lemma qlen_app a b : qlen (a ++ b) = qlen a + qlen b.
Proof. unfold qlen. rewrite app_length. lia. Qed.

Lemma buf_step_ok w d s i : 0 <= d -> buf_inv d s ->
  let o := snd (buf_step w d s i) in
  let s' := fst (buf_step w d s i) in
  let q := buf_abs d s in
  buf_inv d s' /\
  (r_rdy o = true -> exists t, q = r_data o :: t) /\
  buf_abs d s' = q_next w q (w_rdy o && w_en i) (w_data i) (r_rdy o && r_en i) /\
  (w_rdy o = true -> qlen q < d) /\
  (qlen q + 2 <= d -> w_rdy o = true) /\
  (2 <= d -> (w_rdy o = true <-> qlen q - b2z (r_rdy o) < d - 1)) /\
  (d = 1 -> (w_rdy o = true <-> qlen q = 0)) /\
  level o = qlen q /\ w_level o = qlen q /\ r_level o = qlen q /\
  qlen q <= d.
Proof.
  intros Hd [H0|[[H1 Hb]|[H2 Hinv]]].
  - (* depth 0 *)
    subst d. unfold buf_step, buf_abs, buf_out. cbn.
    repeat split; try discriminate; try lia. all: try (left; reflexivity).
  - (* depth 1: a single register *)
    subst d. unfold buf_step, buf_abs, buf_out, q_next.
    change (1 =? 0) with false. change (1 =? 1) with true. cbv iota.
    cbn [fst snd w_rdy r_rdy r_data level w_level r_level blevel rdata].
    destruct Hb as [Hb|Hb]; rewrite Hb;
      change (0 =? 0) with true; change (0 =? 1) with false; change (1 =? 0) with false;
      change (1 =? 1) with true; cbv iota;
      destruct (w_en i), (r_en i); cbn [andb app tl id qlen length b2z Z.of_nat Pos.of_succ_nat]; cbv iota;
      cbn [fst snd w_rdy r_rdy r_data level w_level r_level blevel rdata];
      (split; [right; left; split; [reflexivity|auto]|]);
      repeat split; try discriminate; try lia; try reflexivity; eauto;
      try (intros _; split; intros; (reflexivity || lia || discriminate)).
  - (* depth >= 2 *)
    assert (E0 : (d =? 0) = false) by lia. assert (E1 : (d =? 1) = false) by lia.
    set (c := inner s) in *.
    pose proof Hinv as (Hlen & Hc & Hl & Hp).
    pose proof (core_abs_length (d - 1) c ltac:(lia)) as Hq.
    assert (Hlv : mask (range_width (d + 1)) (lvl c + b2z (rrdy s)) = lvl c + b2z (rrdy s)).
    { apply level_fits; [lia|]. destruct (rrdy s); cbn [b2z]; lia. }
    unfold buf_step, buf_out, buf_abs. rewrite !E0, !E1. fold c. rewrite Hlv.
    cbn [fst snd w_rdy r_rdy r_data level w_level r_level inner rdata rrdy].
    set (dw := negb (lvl c =? d - 1) && w_en i).
    set (dir := negb (lvl c =? 0) && (negb (rrdy s) || r_en i)).
    destruct (core_step_ok w (d - 1) c dw (w_data i) dir ltac:(lia) Hinv) as [Hi Ha].
    { unfold dw. intros H. apply andb_true_iff in H. lia. }
    { unfold dir. intros H. apply andb_true_iff in H. lia. }
    assert (Hql : qlen ((if rrdy s then [rdata s] else []) ++ core_abs (d - 1) c) = b2z (rrdy s) + lvl c).
    { rewrite qlen_app, b2z_qlen, Hq. reflexivity. }
    split; [right; right; split; assumption|].
    split.
    { intros Hr. rewrite Hr. cbn [app]. eauto. }
    split.
    { rewrite Ha. unfold q_next. fold dw.
      set (W := if dw then [mask w (w_data i)] else []).
      destruct (lvl c =? 0) eqn:Elv.
      - (* inner block empty *)
        rewrite (core_abs_nil (d - 1) c) by lia. subst dir. cbn [negb andb app id].
        destruct (rrdy s), (r_en i); reflexivity.
      - destruct (core_abs_hd (d - 1) c ltac:(lia) Hinv ltac:(lia)) as [t Ht].
        rewrite Ht. subst dir. cbn [negb andb].
        destruct (rrdy s), (r_en i); cbn [negb orb andb app tl id]; try reflexivity.
    }
    rewrite Hql.
    split. { intros H. destruct (rrdy s); cbn [b2z]; lia. }
    split. { intros H. destruct (rrdy s); cbn [b2z] in *; lia. }
    split. { intros _. destruct (rrdy s); cbn [b2z]; lia. }
    split. { intros; lia. }
    destruct (rrdy s); cbn [b2z]; lia.
Qed.

Lemma buf_reach_inv w d ins : 0 <= d -> buf_inv d (buf_reach w d ins).
Proof.
  intros Hd. unfold buf_reach. apply reach_inv; [|apply buf_init_inv; assumption].
  intros s i Hs. apply (buf_step_ok w d s i Hd Hs).
Qed.

Theorem buf_refines_queue w d ins i : 0 <= d ->
  let s := buf_reach w d ins in
  let o := snd (buf_step w d s i) in
  let s' := fst (buf_step w d s i) in
  let q := buf_abs d s in
  (r_rdy o = true -> exists t, q = r_data o :: t) /\
  buf_abs d s' = q_next w q (w_rdy o && w_en i) (w_data i) (r_rdy o && r_en i) /\
  (w_rdy o = true -> qlen q < d) /\
  (qlen q + 2 <= d -> w_rdy o = true) /\
  (2 <= d -> (w_rdy o = true <-> qlen q - b2z (r_rdy o) < d - 1)) /\
  (d = 1 -> (w_rdy o = true <-> qlen q = 0)) /\
  level o = qlen q /\ w_level o = qlen q /\ r_level o = qlen q /\
  qlen q <= d.
Proof.
  intros Hd s o s' q.
  exact (proj2 (buf_step_ok w d s i Hd (buf_reach_inv w d ins Hd))).
Qed.

Theorem buf_order w d ins : 0 <= d ->
  accepted w ins (buf_run w d ins) =
  delivered ins (buf_run w d ins) ++ buf_abs d (buf_reach w d ins).
Proof.
  intros Hd. unfold buf_run, buf_reach.
  pose proof (order_from (buf_step w d) (buf_inv d)
                (fun s i Hs => proj1 (buf_step_ok w d s i Hd Hs))
                (buf_abs d) w
                (fun s i Hs => conj (proj1 (proj2 (buf_step_ok w d s i Hd Hs)))
                                    (proj1 (proj2 (proj2 (buf_step_ok w d s i Hd Hs)))))
                ins (buf_init d) (buf_init_inv d Hd)) as H.
  rewrite buf_init_abs in H. exact H.
Qed.

(* liveness: the oldest entry is on the output now or, whatever the inputs, in the next cycle *)
Lemma buf_readable_step w d s i x t : 0 <= d -> buf_inv d s -> buf_abs d s = x :: t ->
  (r_rdy (buf_out d s) = true /\ r_data (buf_out d s) = x) \/
  (r_rdy (buf_out d (fst (buf_step w d s i))) = true /\
   r_data (buf_out d (fst (buf_step w d s i))) = x).
Proof.
  intros Hd [H0|[[H1 Hb]|[H2 Hinv]]] Hq.
  - subst d. discriminate Hq.
  - subst d. left. unfold buf_abs in Hq. unfold buf_out.
    change (1 =? 0) with false in *. change (1 =? 1) with true in *. cbv iota in Hq |- *.
    cbn [r_rdy r_data].
    destruct (blevel s =? 1); [|discriminate]. split; [reflexivity|]. congruence.
  - assert (E0 : (d =? 0) = false) by lia. assert (E1 : (d =? 1) = false) by lia.
    unfold buf_abs in Hq. rewrite E0, E1 in Hq.
    unfold buf_step, buf_out. rewrite !E0, !E1. cbn [fst r_rdy r_data rrdy rdata].
    destruct (rrdy s) eqn:Er.
    + left. cbn [app] in Hq. split; [reflexivity|]. congruence.
    + right. cbn [app] in Hq. pose proof Hinv as (Hlen & Hc & Hl & Hp).
      assert (Hpos : 0 < lvl (inner s)).
      { pose proof (core_abs_length (d - 1) (inner s) ltac:(lia)) as Hn. rewrite Hq in Hn.
        unfold qlen in Hn. cbn [length] in Hn. lia. }
      destruct (core_abs_hd (d - 1) (inner s) ltac:(lia) Hinv Hpos) as [t' Ht].
      assert (Elv : (lvl (inner s) =? 0) = false) by lia.
      rewrite Elv. cbn [negb orb andb]. split; [reflexivity|]. congruence.
Qed.

Theorem buf_readable_within_two w d ins i x t : 0 <= d ->
  let s := buf_reach w d ins in
  buf_abs d s = x :: t ->
  (r_rdy (buf_out d s) = true /\ r_data (buf_out d s) = x) \/
  (r_rdy (buf_out d (fst (buf_step w d s i))) = true /\
   r_data (buf_out d (fst (buf_step w d s i))) = x).
Proof.
  intros Hd s Hq. apply buf_readable_step with (t := t); auto. apply buf_reach_inv; assumption.
Qed.

(* an entry accepted while nothing is held is on the output one or two cycles later *)
Theorem buf_fresh_entry_readable w d ins i1 i2 i3 : 0 <= d ->
  let s0 := buf_reach w d ins in
  let s1 := fst (buf_step w d s0 i1) in
  let s2 := fst (buf_step w d s1 i2) in
  buf_abs d s0 = [] -> w_rdy (buf_out d s0) && w_en i1 = true ->
  let x := mask w (w_data i1) in
  (r_rdy (snd (buf_step w d s1 i2)) = true /\ r_data (snd (buf_step w d s1 i2)) = x) \/
  (r_rdy (snd (buf_step w d s2 i3)) = true /\ r_data (snd (buf_step w d s2 i3)) = x).
Proof.
  intros Hd s0 s1 s2 Hq Hw x.
  pose proof (buf_reach_inv w d ins Hd) as Hinv. fold s0 in Hinv.
  destruct (buf_step_ok w d s0 i1 Hd Hinv) as (Hi1 & Hr & Ha & _).
  rewrite buf_step_out in Hr, Ha. fold s1 in Hi1, Ha. rewrite Hq, Hw in Ha.
  assert (Er : r_rdy (buf_out d s0) = false).
  { destruct (r_rdy (buf_out d s0)); [|reflexivity]. destruct (Hr eq_refl) as [t Ht]. rewrite Hq in Ht. discriminate. }
  rewrite Er in Ha. cbn in Ha. fold x in Ha.
  rewrite !buf_step_out.
  exact (buf_readable_step w d s1 i2 x [] Hd Hi1 Ha).
Qed.

(* the assertions fifo.py itself states for platform = "formal" *)
Lemma core_inv_asserts d c : 1 <= d -> core_inv d c ->
  0 <= produce c < d /\ 0 <= consume c < d /\
  (produce c = consume c -> lvl c = 0 \/ lvl c = d) /\
  (produce c > consume c -> lvl c = produce c - consume c) /\
  (produce c < consume c -> lvl c = d + produce c - consume c).
Proof.
  intros Hd (Hlen & Hc & Hl & Hp).
  destruct (Z_lt_dec (consume c + lvl c) d) as [Hlt|Hge].
  - rewrite Z.mod_small in Hp by lia. lia.
  - assert (E : (consume c + lvl c) mod d = consume c + lvl c - d).
    { symmetry. apply Z.mod_unique with 1; lia. }
    rewrite E in Hp. lia.
Qed.

Theorem sync_formal_asserts w d ins : 1 <= d ->
  let c := sync_reach w d ins in
  Z.of_nat (length (rows c)) = d /\ 0 <= lvl c <= d /\
  produce c = (consume c + lvl c) mod d /\
  0 <= produce c < d /\ 0 <= consume c < d /\
  (produce c = consume c -> lvl c = 0 \/ lvl c = d) /\
  (produce c > consume c -> lvl c = produce c - consume c) /\
  (produce c < consume c -> lvl c = d + produce c - consume c).
Proof.
  intros Hd c. destruct (sync_reach_inv w d ins ltac:(lia)) as [H0|[_ Hinv]]; [lia|]. fold c in Hinv.
  pose proof (core_inv_asserts d c Hd Hinv). destruct Hinv as (? & ? & ? & ?). tauto.
Qed.

Theorem buf_formal_asserts w d ins : 2 <= d ->
  let c := inner (buf_reach w d ins) in
  Z.of_nat (length (rows c)) = d - 1 /\ 0 <= lvl c <= d - 1 /\
  produce c = (consume c + lvl c) mod (d - 1) /\
  0 <= produce c < d - 1 /\ 0 <= consume c < d - 1 /\
  (produce c = consume c -> lvl c = 0 \/ lvl c = d - 1) /\
  (produce c > consume c -> lvl c = produce c - consume c) /\
  (produce c < consume c -> lvl c = d - 1 + produce c - consume c).
Proof.
  intros Hd c. destruct (buf_reach_inv w d ins ltac:(lia)) as [H0|[[H1 _]|[_ Hinv]]]; try lia. fold c in Hinv.
  pose proof (core_inv_asserts (d - 1) c ltac:(lia) Hinv). destruct Hinv as (? & ? & ? & ?). tauto.
Qed.

(* SyncFIFO: whatever is held is readable at once *)
Theorem sync_readable_now w d ins x t : 0 <= d ->
  let c := sync_reach w d ins in
  sync_abs d c = x :: t -> r_rdy (sync_out d c) = true /\ r_data (sync_out d c) = x.
Proof.
  intros Hd c Hq.
  destruct (sync_refines_queue w d ins (Inp false 0 false) Hd) as (Hr & Hh & _).
  fold c in Hr, Hh. rewrite sync_step_out in Hr, Hh.
  assert (Hne : sync_abs d c <> []) by (rewrite Hq; discriminate).
  apply Hr in Hne. split; [exact Hne|]. destruct (Hh Hne) as [t' Ht]. congruence.
Qed.

(* ------------------------------------------------------------------ runs with synchronous resets *)
Lemma core_reset_inv d c : 1 <= d -> core_inv d c -> core_inv d (core_reset c).
Proof.
  intros Hd (Hlen & _). unfold core_inv, core_reset; cbn [rows consume lvl produce].
  repeat split; try lia. all: try (rewrite Z.mod_0_l; lia).
Qed.

Lemma core_reset_abs d c : core_abs d (core_reset c) = [].
Proof. reflexivity. Qed.

Lemma reach_r_inv {S} (step : S -> inp * bool -> S * out) (inv : S -> Prop) :
  (forall s i, inv s -> inv (fst (step s i))) ->
  forall ins s, inv s -> inv (reach_r step s ins).
Proof. intros H. induction ins as [|i r IH]; intros s Hs; cbn [reach_r]; auto. Qed.

Lemma sync_reset_inv d c : sync_inv d c -> sync_inv d (core_reset c).
Proof. intros [H|[H1 H2]]; [left; auto|right; split; auto using core_reset_inv]. Qed.

Lemma sync_reset_abs d c : sync_abs d (core_reset c) = [].
Proof. unfold sync_abs. destruct (d =? 0); reflexivity. Qed.

Lemma sync_reach_r_inv w d ins : 0 <= d -> sync_inv d (sync_reach_r w d ins).
Proof.
  intros Hd. unfold sync_reach_r. apply reach_r_inv; [|apply sync_init_inv; assumption].
  intros s [i r] Hs. unfold sync_step_r; cbn [fst snd].
  pose proof (proj1 (sync_step_sim w d s i Hd Hs)) as Hi.
  destruct r; [apply sync_reset_inv|]; exact Hi.
Qed.

(* the clauses of the property at every state reachable with resets; a reset empties the queue *)
Theorem sync_refines_queue_r w d ins i r : 0 <= d ->
  let c := sync_reach_r w d ins in
  let o := snd (sync_step_r w d c (i, r)) in
  let c' := fst (sync_step_r w d c (i, r)) in
  let q := sync_abs d c in
  (r_rdy o = true <-> q <> []) /\
  (r_rdy o = true -> exists t, q = r_data o :: t) /\
  (w_rdy o = true <-> qlen q < d) /\
  level o = qlen q /\ w_level o = qlen q /\ r_level o = qlen q /\
  qlen q <= d /\
  sync_abs d c' = if r then [] else q_next w q (w_rdy o && w_en i) (w_data i) (r_rdy o && r_en i).
Proof.
  intros Hd c o c' q.
  pose proof (sync_reach_r_inv w d ins Hd) as Hinv. fold c in Hinv.
  unfold o, c', sync_step_r; cbn [fst snd].
  destruct (sync_step_sim w d c i Hd Hinv) as (Hi & Ha & Ho).
  destruct (sync_step_abs w d c i Hd Hinv) as (Hh & Hn).
  set (o1 := snd (sync_step w d c i)) in *. fold q in Ha, Ho, Hh, Hn.
  unfold q_step in Ho. cbn [fst snd] in Ho.
  assert (Hw : w_rdy o1 = (qlen q <? d)) by (apply (f_equal w_rdy) in Ho; exact Ho).
  assert (Hr : r_rdy o1 = negb (qlen q =? 0)) by (apply (f_equal r_rdy) in Ho; exact Ho).
  assert (Hl1 : level o1 = qlen q) by (apply (f_equal level) in Ho; exact Ho).
  assert (Hl2 : w_level o1 = qlen q) by (apply (f_equal w_level) in Ho; exact Ho).
  assert (Hl3 : r_level o1 = qlen q) by (apply (f_equal r_level) in Ho; exact Ho).
  assert (Hcap : qlen q <= d).
  { unfold q, sync_abs. destruct (d =? 0) eqn:E0; [cbn; lia|].
    destruct Hinv as [?|[H1 Hc]]; [lia|]. destruct Hc as (_ & _ & Hl & _).
    rewrite core_abs_length; lia. }
  repeat split; auto.
  - intros H E. rewrite Hr, E in H. discriminate.
  - intros H. rewrite Hr. destruct q; [congruence|]. reflexivity.
  - rewrite Hw. lia.
  - rewrite Hw. lia.
  - destruct r; [apply sync_reset_abs|exact Hn].
Qed.

Lemma buf_reset_inv d s : buf_inv d s -> buf_inv d (buf_reset s).
Proof.
  intros [H|[[H1 H2]|[H1 H2]]]; [left; auto| |].
  - right; left. split; [exact H1|]. left; reflexivity.
  - right; right. split; [exact H1|]. unfold buf_reset; cbn [inner]. apply core_reset_inv; [lia|assumption].
Qed.

Lemma buf_reset_abs d s : buf_abs d (buf_reset s) = [].
Proof. unfold buf_abs. destruct (d =? 0); [reflexivity|]. destruct (d =? 1); reflexivity. Qed.

Lemma buf_reach_r_inv w d ins : 0 <= d -> buf_inv d (buf_reach_r w d ins).
Proof.
  intros Hd. unfold buf_reach_r. apply reach_r_inv; [|apply buf_init_inv; assumption].
  intros s [i r] Hs. unfold buf_step_r; cbn [fst snd].
  pose proof (proj1 (buf_step_ok w d s i Hd Hs)) as Hi.
  destruct r; [apply buf_reset_inv|]; exact Hi.
Qed.

Theorem buf_refines_queue_r w d ins i r : 0 <= d ->
  let s := buf_reach_r w d ins in
  let o := snd (buf_step_r w d s (i, r)) in
  let s' := fst (buf_step_r w d s (i, r)) in
  let q := buf_abs d s in
  (r_rdy o = true -> exists t, q = r_data o :: t) /\
  (w_rdy o = true -> qlen q < d) /\
  (qlen q + 2 <= d -> w_rdy o = true) /\
  level o = qlen q /\ w_level o = qlen q /\ r_level o = qlen q /\
  qlen q <= d /\
  buf_abs d s' = if r then [] else q_next w q (w_rdy o && w_en i) (w_data i) (r_rdy o && r_en i).
Proof.
  intros Hd s o s' q.
  pose proof (buf_reach_r_inv w d ins Hd) as Hinv. fold s in Hinv.
  unfold o, s', buf_step_r; cbn [fst snd].
  destruct (buf_step_ok w d s i Hd Hinv) as (Hi & Hh & Hn & Hw1 & Hw2 & _ & _ & Hl1 & Hl2 & Hl3 & Hcap).
  fold q in Hh, Hn, Hw1, Hw2, Hl1, Hl2, Hl3, Hcap.
  repeat split; auto.
  destruct r; [apply buf_reset_abs|exact Hn].
Qed.

(* after a reset the oldest entry is again readable within two cycles (same statement, runs with resets) *)
Theorem buf_readable_within_two_r w d ins i x t : 0 <= d ->
  let s := buf_reach_r w d ins in
  buf_abs d s = x :: t ->
  (r_rdy (buf_out d s) = true /\ r_data (buf_out d s) = x) \/
  (r_rdy (buf_out d (fst (buf_step w d s i))) = true /\
   r_data (buf_out d (fst (buf_step w d s i))) = x).
Proof.
  intros Hd s Hq. apply buf_readable_step with (t := t); auto. apply buf_reach_r_inv; assumption.
Qed.

(* GenEqAsyncfifo.v — the definitions regenerated from amaranth/lib/fifo.py by translator/unit_asyncfifo.py
   (Gen/AsyncFifoGen.v) equal the hand-written model (Model/AsyncFifo.v). *)
From Coq Require Import ZArith List Bool Lia ZifyBool.
From V.Model Require Import Bits Shape AsyncFifo.
From V.Proofs Require Import BitsP AsyncFifoP.
From V.Gen Require Utils AsyncFifoGen.
Import ListNotations.
Open Scope Z_scope.

(* ------------------------------------------------------------------ constructors *)
Lemma shiftl_1 b : 0 <= b -> Z.shiftl 1 b = 2 ^ b.
Proof. intros. rewrite Z.shiftl_mul_pow2 by lia. lia. Qed.

(* AsyncFIFO.__init__: the generated constructor returns (self.depth, self._ctr_bits); the model's async_ctor is its
   first component and _ctr_bits = aceil_log2 self.depth + 1 (what async_elab_ok uses). *)
Lemma gen_async_ctor_eq depth exact :
  AsyncFifoGen.g_async_ctor depth exact =
  match async_ctor depth exact with Some d => Some (d, aceil_log2 d + 1) | None => None end.
Proof.
  unfold AsyncFifoGen.g_async_ctor, async_ctor, Utils.ceil_log2.
  destruct (depth =? 0) eqn:E0; cbn [negb].
  - apply Z.eqb_eq in E0. subst. reflexivity.
  - destruct (depth <? 0) eqn:E1; [reflexivity|].
    assert (aceil_log2 depth = bit_length (depth - 1)) as Hac by (unfold aceil_log2; rewrite E0; reflexivity).
    cbv zeta. rewrite Hac, ?E0, ?E1.
    pose proof (bit_length_nonneg (depth - 1)) as Hb.
    rewrite !shiftl_1 by assumption.
    destruct (exact && negb (depth =? 2 ^ bit_length (depth - 1))); [reflexivity|].
    rewrite aceil_log2_pow2 by assumption. reflexivity.
Qed.

Lemma gen_async_buf_ctor_eq depth exact :
  AsyncFifoGen.g_async_buf_ctor depth exact = async_buf_ctor depth exact.
Proof.
  unfold AsyncFifoGen.g_async_buf_ctor, async_buf_ctor, Utils.ceil_log2.
  destruct (depth =? 0) eqn:E0; cbn [negb]; [apply Z.eqb_eq in E0; subst; reflexivity|].
  assert (Z.max 0 (depth - 1) <? 0 = false) as -> by (apply Z.ltb_ge; lia).
  unfold aceil_log2.
  destruct (Z.max 0 (depth - 1) =? 0) eqn:E1.
  - rewrite !shiftl_1 by lia. reflexivity.
  - pose proof (bit_length_nonneg (Z.max 0 (depth - 1) - 1)) as Hb.
    rewrite !shiftl_1 by assumption. reflexivity.
Qed.

(* ------------------------------------------------------------------ Gray helpers *)
Lemma gen_gray_encode_eq len val : AsyncFifoGen.g_gray_encode len val = gray_enc val.
Proof. reflexivity. Qed.

Lemma cat1_app l1 l2 :
  AsyncFifoGen.cat1 (l1 ++ l2) = AsyncFifoGen.cat1 l1 + 2 ^ Z.of_nat (length l1) * AsyncFifoGen.cat1 l2.
Proof.
  unfold AsyncFifoGen.cat1. induction l1 as [|a l1 IH].
  - cbn [app length fold_right]. rewrite Z.pow_0_r. lia.
  - cbn [app length fold_right]. rewrite IH.
    rewrite Nat2Z.inj_succ, Z.pow_succ_r by lia. lia.
Qed.

Lemma skipn_upd_nth_lt k j v (l : list Z) : (j < k)%nat -> skipn k (upd_nth j v l) = skipn k l.
Proof.
  revert j l. induction k as [|k IH]; intros j l H; [lia|].
  destruct l as [|x l]; [destruct j; reflexivity|].
  destruct j as [|j]; cbn [upd_nth skipn]; [reflexivity|]. apply IH. lia.
Qed.

Lemma skipn_upd_nth_eq j v (l : list Z) : (j < length l)%nat -> skipn j (upd_nth j v l) = v :: skipn (S j) l.
Proof.
  revert l. induction j as [|j IH]; intros l H; destruct l as [|x l]; cbn [length] in H; try lia.
  - reflexivity.
  - cbn [upd_nth]. change (skipn (S j) (x :: upd_nth j v l)) with (skipn j (upd_nth j v l)).
    rewrite IH by lia. reflexivity.
Qed.

Lemma skipn_S_tl j (l : list Z) : skipn (S j) l = tl (skipn j l).
Proof.
  revert l. induction j as [|j IH]; intros l; destruct l as [|x l]; try reflexivity.
  change (skipn (S (S j)) (x :: l)) with (skipn (S j) l). rewrite IH. reflexivity.
Qed.

Section Dec.
  Variable val : Z.
  Let F := (fun (i : Z) '((out, rhs) : list Z * Z) =>
              let rhs := Z.lxor rhs (AsyncFifoGen.v_bit val i) in
              let out := AsyncFifoGen.lset out i rhs in (out, rhs)).

  Lemma dec_loop k : forall out rhs, (k <= length out)%nat ->
    let r := AsyncFifoGen.for_rev_range k F (out, rhs) in
    length (fst r) = length out /\ skipn k (fst r) = skipn k out /\
    AsyncFifoGen.cat1 (firstn k (fst r)) = gray_dec_loop k val rhs.
  Proof.
    induction k as [|j IH]; intros out rhs Hk; cbn zeta.
    - cbn [AsyncFifoGen.for_rev_range fst firstn skipn gray_dec_loop]. repeat split.
    - cbn [AsyncFifoGen.for_rev_range gray_dec_loop].
      assert (F (Z.of_nat j) (out, rhs) =
              (upd_nth j (Z.lxor rhs (AsyncFifoGen.v_bit val (Z.of_nat j))) out,
               Z.lxor rhs (AsyncFifoGen.v_bit val (Z.of_nat j)))) as EF
        by (unfold F, AsyncFifoGen.lset; rewrite Nat2Z.id; reflexivity).
      rewrite EF. clear EF.
      set (rhs' := Z.lxor rhs (AsyncFifoGen.v_bit val (Z.of_nat j))).
      set (out1 := upd_nth j rhs' out).
      assert (length out1 = length out) as L1 by apply upd_nth_length.
      destruct (IH out1 rhs' ltac:(lia)) as (A & B & C). cbn zeta in A, B, C.
      set (r := AsyncFifoGen.for_rev_range j F (out1, rhs')) in *.
      assert (skipn j (fst r) = rhs' :: skipn (S j) out) as B'.
      { rewrite B. apply skipn_upd_nth_eq. lia. }
      repeat split.
      + lia.
      + rewrite !skipn_S_tl, B'. cbn [tl]. apply skipn_S_tl.
      + assert (firstn (S j) (fst r) = firstn j (fst r) ++ [rhs']) as ->.
        { rewrite <- (firstn_skipn j (fst r)) at 1. rewrite B'.
          assert (length (firstn j (fst r)) = j) as Lf by (rewrite firstn_length; lia).
          replace (S j) with (length (firstn j (fst r)) + 1)%nat at 1 by lia.
          rewrite firstn_app_2. reflexivity. }
        rewrite cat1_app, C. rewrite firstn_length, Nat.min_l by lia.
        cbv zeta. change (Z.lxor rhs (zbit val (Z.of_nat j))) with rhs'.
        unfold AsyncFifoGen.cat1. cbn [fold_right]. lia.
  Qed.
End Dec.

Lemma gen_gray_decode_eq len val : AsyncFifoGen.g_gray_decode len val = gray_dec len val.
Proof.
  unfold AsyncFifoGen.g_gray_decode, gray_dec.
  pose proof (dec_loop val (Z.to_nat len) (repeat 0 (Z.to_nat len)) 0) as H.
  rewrite repeat_length in H. specialize (H (le_n _)). cbn zeta in H.
  destruct (AsyncFifoGen.for_rev_range _ _ _) as [out rhs] eqn:E.
  cbn [fst] in H. destruct H as (L & _ & C).
  rewrite <- L, firstn_all in C. rewrite <- L. exact C.
Qed.

(* ------------------------------------------------------------------ w_full of AsyncFIFO.elaborate (ctr_bits = n + 1) *)
Lemma gen_w_full_eq n p c : AsyncFifoGen.g_w_full (n + 1) p c = gray_full n p c.
Proof.
  unfold AsyncFifoGen.g_w_full, gray_full, AsyncFifoGen.v_idx, AsyncFifoGen.v_bit, AsyncFifoGen.v_upto.
  change (-1 <? 0) with true. change (-2 <? 0) with true. cbv iota.
  replace (n + 1 + -1) with n by lia. replace (n + 1 + -2) with (n - 1) by lia.
  destruct (Z.testbit p n), (Z.testbit c n), (Z.testbit p (n - 1)), (Z.testbit c (n - 1)); reflexivity.
Qed.

(* the only indices that can be out of range at elaboration are those of w_full: the model's async_elab_ok *)
Lemma gen_w_full_idx_ok_eq d :
  (d =? 0) || AsyncFifoGen.g_w_full_idx_ok (aceil_log2 d + 1) = async_elab_ok d.
Proof.
  unfold AsyncFifoGen.g_w_full_idx_ok, async_elab_ok.
  assert (index_ok (aceil_log2 d + 1) (-1) = true) as ->
    by (pose proof (aceil_log2_nonneg d); unfold index_ok; lia).
  cbn [andb]. rewrite andb_diag. reflexivity.
Qed.

(* ------------------------------------------------------------------ the two-clock step of AsyncFIFO.elaborate
   g_async_step is obtained by symbolic execution of the m.d.comb / m.d[self._w_domain] / m.d[self._r_domain] statements
   (including the m.If(r_rst) override), the two FFSynchronizer chains and the memory ports.  Its state gst holds the
   registers in order of appearance (including the two AsyncFFSynchronizer flops af0, af1 = r_rst); to_g reads them off
   the model's record.  The write-domain / read-domain resets are inputs.  Widths: ctr_bits = n + 1, address n, level alvl_bits n. *)
Definition to_g (st : afifo) : AsyncFifoGen.gst :=
  AsyncFifoGen.mkG (pwb st) (crb st) (ps0 st) (ps1 st) (pwg st) (cs0 st) (cs1 st) (crg st) (cwb st) (wlvl st)
                   (mem st) (rdat st) (Z.b2z (af0 st)) (Z.b2z (af1 st)) (Z.b2z (rrst st)).

Lemma land_b2z a b : Z.land (Z.b2z a) (Z.b2z b) = Z.b2z (a && b).
Proof. destruct a, b; reflexivity. Qed.

Lemma lnot_b2z a : Z.lnot (Z.b2z a) mod 2 ^ 1 = Z.b2z (negb a).
Proof. destruct a; reflexivity. Qed.

Lemma upto_addr n x : 0 <= n ->
  AsyncFifoGen.v_upto x (AsyncFifoGen.v_idx (n + 1) (-1)) mod 2 ^ n = x mod 2 ^ n.
Proof.
  intros Hn. unfold AsyncFifoGen.v_upto, AsyncFifoGen.v_idx. change (-1 <? 0) with true. cbv iota.
  replace (n + 1 + -1) with n by lia. apply Z.mod_mod. pose proof (pow2_pos n Hn). lia.
Qed.

Lemma w_full_z n p c :
  Z.land (Z.land
    (Z.b2z (negb (AsyncFifoGen.v_bit p (AsyncFifoGen.v_idx (n + 1) (-1)) =? AsyncFifoGen.v_bit c (AsyncFifoGen.v_idx (n + 1) (-1)))))
    (Z.b2z (negb (AsyncFifoGen.v_bit p (AsyncFifoGen.v_idx (n + 1) (-2)) =? AsyncFifoGen.v_bit c (AsyncFifoGen.v_idx (n + 1) (-2))))))
    (Z.b2z (AsyncFifoGen.v_upto p (AsyncFifoGen.v_idx (n + 1) (-2)) =? AsyncFifoGen.v_upto c (AsyncFifoGen.v_idx (n + 1) (-2))))
  = Z.b2z (gray_full n p c).
Proof. rewrite !land_b2z. rewrite <- gen_w_full_eq. reflexivity. Qed.

Lemma gen_async_step_eq n width st e i : 0 <= n ->
  AsyncFifoGen.g_async_step (n + 1) n (alvl_bits n) width (has_w e) (has_r e)
    (Z.b2z (i_wen i)) (i_wdata i mod 2 ^ width) (Z.b2z (i_ren i)) (Z.b2z (i_rst i)) (Z.b2z (i_rrst i)) (to_g st)
  = to_g (async_step n width st e i).
Proof.
  intros Hn.
  unfold AsyncFifoGen.g_async_step, async_step, to_g.
  destruct (i_rst i); unfold a_pre, o_wrdy, o_rrdy; cbv zeta;
  cbn [Z.b2z Z.eqb negb
       AsyncFifoGen.g_produce_w_bin AsyncFifoGen.g_consume_r_bin AsyncFifoGen.g_produce_cdc_0 AsyncFifoGen.g_produce_r_gry
       AsyncFifoGen.g_produce_w_gry AsyncFifoGen.g_consume_cdc_0 AsyncFifoGen.g_consume_w_gry AsyncFifoGen.g_consume_r_gry
       AsyncFifoGen.g_consume_w_bin AsyncFifoGen.g_self_w_level AsyncFifoGen.g_storage AsyncFifoGen.g_r_port_data
       AsyncFifoGen.g_rst_cdc_0 AsyncFifoGen.g_r_rst AsyncFifoGen.g_self_r_rst
       pwb pwg crb crg ps0 ps1 cs0 cs1 cwb wlvl mem rdat af0 af1 rrst];
  rewrite !w_full_z, !upto_addr by assumption;
  rewrite !gen_gray_decode_eq;
  unfold AsyncFifoGen.g_gray_encode, AsyncFifoGen.lset;
  destruct (gray_full n (pwg st) (cs1 st)), (crg st =? ps1 st), (i_wen i), (i_ren i), (i_rrst i), e;
  try reflexivity; destruct (af1 st), (af0 st); reflexivity.
Qed.

(* the combinational interface outputs before the event (after the asynchronous effect a_pre of the write-domain reset):
   w_rdy, r_rdy, r_level, r_data *)
Lemma gen_async_out_eq n width wen wdata ren (rst : bool) rdr st : 0 <= n ->
  AsyncFifoGen.g_async_out (n + 1) n (alvl_bits n) width wen wdata ren (Z.b2z rst) rdr (to_g st)
  = (Z.b2z (o_wrdy n (a_pre st rst)), Z.b2z (o_rrdy (a_pre st rst)), o_rlevel n (a_pre st rst), o_rdata (a_pre st rst)).
Proof.
  intros Hn.
  unfold AsyncFifoGen.g_async_out, to_g, o_wrdy, o_rrdy, o_rlevel, o_rdata.
  destruct rst; unfold a_pre; cbv zeta;
  cbn [Z.b2z Z.eqb negb
       AsyncFifoGen.g_produce_w_bin AsyncFifoGen.g_consume_r_bin AsyncFifoGen.g_produce_cdc_0 AsyncFifoGen.g_produce_r_gry
       AsyncFifoGen.g_produce_w_gry AsyncFifoGen.g_consume_cdc_0 AsyncFifoGen.g_consume_w_gry AsyncFifoGen.g_consume_r_gry
       AsyncFifoGen.g_consume_w_bin AsyncFifoGen.g_self_w_level AsyncFifoGen.g_storage AsyncFifoGen.g_r_port_data
       AsyncFifoGen.g_rst_cdc_0 AsyncFifoGen.g_r_rst AsyncFifoGen.g_self_r_rst
       pwb pwg crb crg ps0 ps1 cs0 cs1 cwb wlvl mem rdat af0 af1 rrst];
  rewrite !w_full_z, !gen_gray_decode_eq;
  destruct (gray_full n (pwg st) (cs1 st)), (crg st =? ps1 st), (af1 st); reflexivity.
Qed.

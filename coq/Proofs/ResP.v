(* ResP.v — lemmas about Model/Res.v (C19). *)
From Coq Require Import ZArith List Bool Lia.
From V.Model Require Import Res.
Import ListNotations.
Open Scope Z_scope.

(* ================================================================= A. connector resolution *)
Lemma ckey_eqb_eq a b : ckey_eqb a b = true <-> a = b.
Proof.
  destruct a as [a1 a2], b as [b1 b2]; unfold ckey_eqb; cbn [fst snd].
  rewrite andb_true_iff, !Z.eqb_eq. split; [intros [-> ->]; reflexivity|intros H; inversion H; auto].
Qed.
Lemma ckey_eqb_refl a : ckey_eqb a a = true.
Proof. apply ckey_eqb_eq; reflexivity. Qed.
Lemma ckey_eqb_neq a b : a <> b -> ckey_eqb a b = false.
Proof. intros H; destruct (ckey_eqb a b) eqn:E; auto. apply ckey_eqb_eq in E; contradiction. Qed.

Lemma ckey_mem_In a l : ckey_mem a l = true <-> In a l.
Proof.
  induction l as [|b r IH]; cbn; [split; [discriminate|tauto]|].
  rewrite orb_true_iff, ckey_eqb_eq, IH. split; intros [H|H]; auto.
Qed.

(* the chain of connector references from a name to a platform pin *)
Inductive chain (cm : connmap) : pname -> Z -> Prop :=
| chain_plat p : chain cm (Plat p) p
| chain_step c k n' p : cm_lookup cm (c, k) = Some n' -> chain cm n' p -> chain cm (CPin c k) p.

Lemma resolve_seen_S f cm seen c k : resolve_seen (S f) cm seen (CPin c k) =
  match cm_lookup cm (c, k) with
  | None => MMissing
  | Some n' => if ckey_mem (c, k) seen then MCycle else resolve_seen f cm ((c, k) :: seen) n'
  end.
Proof. reflexivity. Qed.

Lemma resolve_seen_chain cm : forall fuel seen n p, resolve_seen fuel cm seen n = MOk p -> chain cm n p.
Proof.
  induction fuel as [|f IH]; intros seen n p H; destruct n as [q|c k]; cbn in H.
  - inversion H; constructor.
  - discriminate.
  - inversion H; constructor.
  - destruct (cm_lookup cm (c, k)) eqn:E; [|discriminate].
    destruct (ckey_mem (c, k) seen); [discriminate|]. econstructor; eauto.
Qed.
Lemma resolve_name_chain cm fuel n p : resolve_name fuel cm n = MOk p -> chain cm n p.
Proof. apply resolve_seen_chain. Qed.

(* a result other than fuel exhaustion is independent of the fuel *)
Lemma resolve_seen_fuel_mono cm : forall fuel seen n r, resolve_seen fuel cm seen n = r -> r <> MLoop ->
  forall k, resolve_seen (fuel + k) cm seen n = r.
Proof.
  induction fuel as [|f IH]; intros seen n r H Hr k; destruct n as [q|c q]; cbn in H.
  - destruct (0 + k)%nat; exact H.
  - congruence.
  - exact H.
  - cbn. destruct (cm_lookup cm (c, q)); auto. destruct (ckey_mem (c, q) seen); auto.
Qed.
Lemma resolve_name_fuel_mono cm fuel n r : resolve_name fuel cm n = r -> r <> MLoop ->
  forall k, resolve_name (fuel + k) cm n = r.
Proof. apply resolve_seen_fuel_mono. Qed.

(* termination for EVERY connector table: the seen set holds distinct keys of the table, so the loop
   body runs at most |cm| + 1 times and the fuel cm_fuel is never exhausted *)
Lemma cm_lookup_In cm k v : cm_lookup cm k = Some v -> In k (map fst cm).
Proof.
  induction cm as [|[k' v'] r IH]; cbn; [discriminate|].
  destruct (ckey_eqb k' k) eqn:E; [apply ckey_eqb_eq in E; auto|auto].
Qed.
Lemma resolve_seen_terminates cm : forall fuel seen n, NoDup seen ->
  (forall s, In s seen -> In s (map fst cm)) -> (length cm < fuel + length seen)%nat ->
  resolve_seen fuel cm seen n <> MLoop.
Proof.
  induction fuel as [|f IH]; intros seen n Hnd Hdom Hlen; destruct n as [q|c q]; try (cbn; discriminate).
  - exfalso. pose proof (NoDup_incl_length Hnd Hdom) as Hle. rewrite map_length in Hle. cbn in Hlen. lia.
  - rewrite resolve_seen_S. destruct (cm_lookup cm (c, q)) as [n'|] eqn:E; [|discriminate].
    destruct (ckey_mem (c, q) seen) eqn:Em; [discriminate|].
    apply IH.
    + constructor; auto. rewrite <- ckey_mem_In. congruence.
    + intros s [<-|Hs]; [eapply cm_lookup_In; eauto|auto].
    + cbn [length]. lia.
Qed.
Lemma resolve_terminates cm n : resolve_name (cm_fuel cm) cm n <> MLoop.
Proof.
  apply resolve_seen_terminates; [constructor|intros s []|]. unfold cm_fuel. cbn. lia.
Qed.

(* acyclic table: connector references strictly decrease some rank *)
Definition acyclic (cm : connmap) : Prop :=
  exists rank : ckey -> nat, forall k c' k', cm_lookup cm k = Some (CPin c' k') -> (rank (c', k') < rank k)%nat.
(* every referenced connector pin exists *)
Definition closed (cm : connmap) : Prop :=
  forall k c' k', cm_lookup cm k = Some (CPin c' k') -> cm_lookup cm (c', k') <> None.
Definition present (cm : connmap) (n : pname) : Prop :=
  match n with Plat _ => True | CPin c k => cm_lookup cm (c, k) <> None end.

Definition below (rank : ckey -> nat) (n : pname) (k : ckey) : Prop :=
  match n with Plat _ => True | CPin c q => (rank (c, q) < rank k)%nat end.

Lemma resolve_seen_acyclic cm rank :
  (forall k c' k', cm_lookup cm k = Some (CPin c' k') -> (rank (c', k') < rank k)%nat) ->
  forall fuel seen n, (forall s, In s seen -> below rank n s) -> resolve_seen fuel cm seen n <> MCycle.
Proof.
  intros Hr; induction fuel as [|f IH]; intros seen n Hb; destruct n as [q|c q]; try (cbn; discriminate).
  rewrite resolve_seen_S. destruct (cm_lookup cm (c, q)) as [n'|] eqn:E; [|discriminate].
  destruct (ckey_mem (c, q) seen) eqn:Em.
  - exfalso. apply ckey_mem_In in Em. specialize (Hb _ Em). cbn in Hb. lia.
  - apply IH. intros s Hs. destruct n' as [|c' k']; cbn; auto.
    specialize (Hr _ _ _ E). destruct Hs as [<-|Hs]; [exact Hr|]. specialize (Hb _ Hs). cbn in Hb. lia.
Qed.
Lemma resolve_acyclic_nocycle cm n : acyclic cm -> resolve_name (cm_fuel cm) cm n <> MCycle.
Proof. intros [rank Hr]. apply (resolve_seen_acyclic cm rank Hr). intros s []. Qed.

Lemma resolve_closed_found cm : closed cm -> forall fuel seen n, present cm n -> resolve_seen fuel cm seen n <> MMissing.
Proof.
  intros Hc; induction fuel as [|f IH]; intros seen n Hp; destruct n as [q|c q]; try (cbn; discriminate).
  rewrite resolve_seen_S. cbn in Hp. destruct (cm_lookup cm (c, q)) as [n'|] eqn:E; [|congruence].
  destruct (ckey_mem (c, q) seen); [discriminate|].
  apply IH. destruct n' as [|c' k']; cbn; auto. eapply Hc; eauto.
Qed.

(* resolution always terminates: at a platform pin reached along the chain, or with NameError
   (dangling reference, or a connector pin reached a second time) *)
Lemma map_names_total cm n :
  (exists p, resolve_name (cm_fuel cm) cm n = MOk p /\ chain cm n p) \/
  resolve_name (cm_fuel cm) cm n = MMissing \/ resolve_name (cm_fuel cm) cm n = MCycle.
Proof.
  pose proof (resolve_terminates cm n) as Hl.
  destruct (resolve_name (cm_fuel cm) cm n) as [p| | |] eqn:E; [|auto|auto|congruence].
  left. exists p. split; auto. eapply resolve_name_chain; eauto.
Qed.

Lemma map_names_chain cm n : acyclic cm ->
  (resolve_name (cm_fuel cm) cm n = MMissing \/ exists p, resolve_name (cm_fuel cm) cm n = MOk p /\ chain cm n p)
  /\ (closed cm -> present cm n -> exists p, resolve_name (cm_fuel cm) cm n = MOk p /\ chain cm n p).
Proof.
  intros Ha. pose proof (resolve_acyclic_nocycle cm n Ha) as Hc.
  destruct (map_names_total cm n) as [(p & Hp & Hch)|[Hm|Hcy]]; [| |congruence].
  - split; [right|intros _ _]; exists p; split; auto.
  - split; [left; exact Hm|]. intros Hcl Hp. exfalso. eapply (resolve_closed_found cm Hcl); eauto.
Qed.

Definition cyc_cm : connmap := [((0, 1), CPin 1 1); ((1, 1), CPin 0 1)].
Lemma cyclic_is_NameError : resolve_name (cm_fuel cyc_cm) cyc_cm (CPin 0 1) = MCycle.
Proof. reflexivity. Qed.

Lemma map_names_Forall2 fuel cm : forall ns l, map_names fuel cm ns = LOk l ->
  Forall2 (fun n p => resolve_name fuel cm n = MOk p) ns l.
Proof.
  induction ns as [|n r IH]; intros l H; cbn in H.
  - inversion H; constructor.
  - destruct (resolve_name fuel cm n) eqn:E; try discriminate.
    destruct (map_names fuel cm r) eqn:E2; try discriminate. inversion H; subst. constructor; auto.
Qed.

Lemma Forall2_nth_error {A B} (R : A -> B -> Prop) : forall la lb, Forall2 R la lb ->
  length la = length lb /\ forall k a, nth_error la k = Some a -> exists b, nth_error lb k = Some b /\ R a b.
Proof.
  induction 1 as [|a b la lb Hab _ [IHl IH]]; split; cbn; auto.
  - intros [|k] a H; discriminate.
  - intros [|k] a' H; cbn in *; [inversion H; subst; eauto|eauto].
Qed.

(* ================================================================= B. membership, claim *)
Lemma zmem_In a l : zmem a l = true <-> In a l.
Proof.
  induction l as [|b r IH]; cbn; [split; [discriminate|tauto]|].
  rewrite orb_true_iff, Z.eqb_eq, IH. split; intros [H|H]; auto.
Qed.
Lemma key_eqb_eq a b : key_eqb a b = true <-> a = b.
Proof. exact (ckey_eqb_eq a b). Qed.
Lemma key_mem_In a l : key_mem a l = true <-> In a l.
Proof.
  induction l as [|b r IH]; cbn; [split; [discriminate|tauto]|].
  rewrite orb_true_iff, key_eqb_eq, IH. split; intros [H|H]; auto.
Qed.

Lemma NoDup_snoc {A} (l : list A) a : NoDup l -> ~ In a l -> NoDup (l ++ [a]).
Proof.
  induction 1 as [|b l Hb Hl IH]; intros Ha; cbn.
  { constructor; [intros []|constructor]. }
  constructor.
  - intros Hin. apply in_app_or in Hin. destruct Hin as [Hin|[<-|[]]]; [auto|]. apply Ha; left; reflexivity.
  - apply IH. intros Hin; apply Ha; right; exact Hin.
Qed.

Lemma NoDup_app_inv {A} (a b : list A) : NoDup (a ++ b) -> NoDup a /\ NoDup b /\ (forall x, In x a -> ~ In x b).
Proof.
  induction a as [|x a IH]; cbn; intros H.
  - repeat split; [constructor|exact H|intros x []].
  - inversion H as [|? ? Hx Hr]; subst. destruct (IH Hr) as (Ha & Hb & Hd). repeat split; auto.
    + constructor; auto. intros Hin; apply Hx; apply in_or_app; auto.
    + intros y [<-|Hy]; [intros Hin; apply Hx; apply in_or_app; auto|auto].
Qed.
Lemma NoDup_app_intro {A} (a b : list A) : NoDup a -> NoDup b -> (forall x, In x a -> ~ In x b) -> NoDup (a ++ b).
Proof.
  induction 1 as [|x a Hx Ha IH]; cbn; intros Hb Hd; auto.
  constructor.
  - intros Hin; apply in_app_or in Hin; destruct Hin as [Hin|Hin]; [auto|]. apply (Hd x); [left; reflexivity|exact Hin].
  - apply IH; auto; intros y Hy; apply Hd; right; exact Hy.
Qed.

Lemma claim_true : forall names ph pth ph', claim ph names pth = (ph', true) ->
  map fst ph' = map fst ph ++ names /\ NoDup names /\ (forall a, In a names -> ~ In a (map fst ph)).
Proof.
  induction names as [|a r IH]; intros ph pth ph' H; cbn in H.
  - inversion H; subst. rewrite app_nil_r. repeat split; [constructor|intros a []].
  - destruct (zmem a (map fst ph)) eqn:E; [inversion H|].
    apply IH in H. destruct H as (Hm & Hn & Hd). rewrite map_app in Hm, Hd. cbn in Hm, Hd.
    assert (Ha : ~ In a (map fst ph)) by (rewrite <- zmem_In; congruence).
    repeat split.
    + rewrite Hm, <- app_assoc. reflexivity.
    + constructor; auto. intros Hin. apply (Hd a Hin). apply in_or_app; right; left; reflexivity.
    + intros b [<-|Hb]; auto. intros Hin. apply (Hd b Hb). apply in_or_app; auto.
Qed.

Lemma claim_any : forall names ph pth ph' b, claim ph names pth = (ph', b) ->
  (exists ext, ph' = ph ++ ext) /\ (NoDup (map fst ph) -> NoDup (map fst ph')).
Proof.
  induction names as [|a r IH]; intros ph pth ph' b H; cbn in H.
  - inversion H; subst. split; [exists []; rewrite app_nil_r; reflexivity|auto].
  - destruct (zmem a (map fst ph)) eqn:E.
    + inversion H; subst. split; [exists []; rewrite app_nil_r; reflexivity|auto].
    + apply IH in H. destruct H as ([ext He] & Hn). split.
      * exists ((a, pth) :: ext). rewrite He, <- app_assoc. reflexivity.
      * intros Hnd. apply Hn. rewrite map_app. cbn. apply NoDup_snoc; auto. rewrite <- zmem_In; congruence.
Qed.

(* ================================================================= C. one leaf *)
Definition frame (st st' : state) : Prop :=
  requested st' = requested st /\ (exists ext, pins st' = pins st ++ ext) /\
  (exists ext, phys_reqd st' = phys_reqd st ++ ext) /\
  (NoDup (map fst (phys_reqd st)) -> NoDup (map fst (phys_reqd st'))).
Lemma frame_refl st : frame st st.
Proof. repeat split; auto; exists []; rewrite app_nil_r; reflexivity. Qed.
Lemma frame_trans a b c : frame a b -> frame b c -> frame a c.
Proof.
  intros (R1 & [p1 P1] & [q1 Q1] & N1) (R2 & [p2 P2] & [q2 Q2] & N2). repeat split.
  - congruence.
  - exists (p1 ++ p2). rewrite P2, P1, app_assoc. reflexivity.
  - exists (q1 ++ q2). rewrite Q2, Q1, app_assoc. reflexivity.
  - auto.
Qed.

Definition opts_ok (d : dval) (x : xval) : Prop :=
  d = DDash \/ exists dd z, d = DDir dd /\ x = XInt z /\ ((z =? 0) || (z =? 1) || (z =? 2)) = true.
Definition leaf_resolves (fuel : nat) (cm : connmap) (l : leafd) : Prop :=
  match l_phys l with
  | PPins ns => exists pp, map_names fuel cm ns = LOk pp
  | PDiff ps ns => (exists pp, map_names fuel cm ps = LOk pp) /\ (exists nn, map_names fuel cm ns = LOk nn)
  end.
(* the returned leaf against its declaration *)
Definition leaf_matches (fuel : nat) (cm : connmap) (pth : path) (attrs : alist) (l : leafd) (v : lval) : Prop :=
  let pt := lv_port v in
  pt_path pt = pth /\ pt_attrs pt = attrs /\ pt_inv pt = l_inv l /\ pt_dir pt = out_dir (l_dir l) /\
  lv_clock v = l_clock l /\
  match l_phys l with
  | PPins ns => pt_diff pt = false /\ map_names fuel cm ns = LOk (pt_p pt) /\ pt_n pt = []
  | PDiff ps ns => pt_diff pt = true /\ map_names fuel cm ps = LOk (pt_p pt) /\ map_names fuel cm ns = LOk (pt_n pt)
  end.

Lemma leaf_finish_spec nm l d x pth attrs st pp nn diff st' r :
  leaf_finish nm l d x pth attrs st pp nn diff = (st', r) ->
  frame st st' /\
  match r with
  | inr v => map fst (phys_reqd st') = map fst (phys_reqd st) ++ (pp ++ nn) /\
             (forall a, In a (pp ++ nn) -> ~ In a (map fst (phys_reqd st))) /\
             io_clocks st' = io_clocks st ++ clock_of v /\
             lv_port v = mkPort pth diff pp nn (l_inv l) (out_dir (l_dir l)) attrs /\ lv_clock v = l_clock l
  | inl e => opts_ok d x -> e = EResource RConflict
  end.
Proof.
  unfold leaf_finish. intros H.
  set (st1 := add_clock st (pth, if diff then 1 else 0) (l_clock l)) in *.
  assert (R1 : requested st1 = requested st) by (unfold st1, add_clock; destruct (l_clock l); reflexivity).
  assert (P1 : pins st1 = pins st) by (unfold st1, add_clock; destruct (l_clock l); reflexivity).
  assert (Q1 : phys_reqd st1 = phys_reqd st) by (unfold st1, add_clock; destruct (l_clock l); reflexivity).
  assert (C1 : io_clocks st1 = io_clocks st ++
               match l_clock l with Some f => [((pth, if diff then 1 else 0), f)] | None => [] end)
    by (unfold st1, add_clock; destruct (l_clock l); cbn; [reflexivity|rewrite app_nil_r; reflexivity]).
  destruct (claim (phys_reqd st1) (pp ++ nn) pth) as [ph ok] eqn:Ec. rewrite Q1 in Ec.
  destruct (claim_any _ _ _ _ _ Ec) as ([ext Hext] & Hnd).
  assert (F0 : forall pn, frame st (mkSt (requested st1) ph (io_clocks st1) (pins st1 ++ pn))).
  { intros pn. repeat split; cbn; auto. exists pn; rewrite P1; reflexivity. exists ext; exact Hext. }
  assert (F1 : frame st (mkSt (requested st1) ph (io_clocks st1) (pins st1))).
  { specialize (F0 []). rewrite app_nil_r in F0. exact F0. }
  destruct ok; cbn [negb] in H.
  2:{ inversion H; subst. split; auto. }
  destruct (claim_true _ _ _ _ Ec) as (Hm & _ & Hd).
  assert (OK : forall v, lv_port v = mkPort pth diff pp nn (l_inv l) (out_dir (l_dir l)) attrs ->
                         lv_clock v = l_clock l -> io_clocks st1 = io_clocks st ++ clock_of v).
  { intros v Hp Hc. rewrite C1. unfold clock_of. rewrite Hc, Hp. reflexivity. }
  destruct d as [| |dd| |dl].
  - inversion H; subst. split; auto. intros [E|(dd & z & E & _)]; discriminate.
  - inversion H; subst. split; [exact F1|]. cbn. repeat split; auto.
  - destruct x as [|z| |xl].
    + inversion H; subst. split; auto. intros [E|(dd' & z & _ & E & _)]; discriminate.
    + destruct ((z =? 0) || (z =? 1) || (z =? 2)) eqn:Ez.
      * inversion H; subst. split; [apply F0|]. cbn. repeat split; auto.
      * inversion H; subst. split; auto. intros [E|(dd' & z' & _ & E & Hz)]; [discriminate|].
        inversion E; subst. congruence.
    + inversion H; subst. split; auto. intros [E|(dd' & z & _ & E & _)]; discriminate.
    + inversion H; subst. split; auto. intros [E|(dd' & z & _ & E & _)]; discriminate.
  - inversion H; subst. split; auto. intros [E|(dd & z & E & _)]; discriminate.
  - inversion H; subst. split; auto. intros [E|(dd & z & E & _)]; discriminate.
Qed.

Lemma resolve_leaf_spec fuel cm nm l d x pth attrs st st' r :
  resolve_leaf fuel cm nm l d x pth attrs st = (st', r) ->
  frame st st' /\
  match r with
  | inr v => map fst (phys_reqd st') = map fst (phys_reqd st) ++ port_pins (lv_port v) /\
             (forall a, In a (port_pins (lv_port v)) -> ~ In a (map fst (phys_reqd st))) /\
             io_clocks st' = io_clocks st ++ clock_of v /\
             leaf_matches fuel cm pth attrs l v
  | inl e => opts_ok d x -> leaf_resolves fuel cm l -> e = EResource RConflict
  end.
Proof.
  unfold resolve_leaf, leaf_resolves, leaf_matches. intros H.
  destruct (l_phys l) as [ns|ps ns].
  - destruct (map_names fuel cm ns) as [pp| | |] eqn:E1.
    + apply leaf_finish_spec in H. destruct H as (F & H). split; auto.
      destruct r as [e|v]; [tauto|]. destruct H as (Hm & Hd & Hc & Hp & Hk).
      unfold port_pins. rewrite Hp; cbn. repeat split; auto.
    + inversion H; subst. split; [apply frame_refl|]. intros _ [pp Hp]; discriminate.
    + inversion H; subst. split; [apply frame_refl|]. intros _ [pp Hp]; discriminate.
    + inversion H; subst. split; [apply frame_refl|]. intros _ [pp Hp]; discriminate.
  - destruct (map_names fuel cm ps) as [pp| | |] eqn:E1.
    + destruct (map_names fuel cm ns) as [nn| | |] eqn:E2.
      * apply leaf_finish_spec in H. destruct H as (F & H). split; auto.
        destruct r as [e|v]; [tauto|]. destruct H as (Hm & Hd & Hc & Hp & Hk).
        unfold port_pins. rewrite Hp; cbn. repeat split; auto.
      * inversion H; subst. split; [apply frame_refl|]. intros _ [_ [nn Hn]]; discriminate.
      * inversion H; subst. split; [apply frame_refl|]. intros _ [_ [nn Hn]]; discriminate.
      * inversion H; subst. split; [apply frame_refl|]. intros _ [_ [nn Hn]]; discriminate.
    + inversion H; subst. split; [apply frame_refl|]. intros _ [[pp Hp] _]; discriminate.
    + inversion H; subst. split; [apply frame_refl|]. intros _ [[pp Hp] _]; discriminate.
    + inversion H; subst. split; [apply frame_refl|]. intros _ [[pp Hp] _]; discriminate.
Qed.

(* ================================================================= D. the tree as a list of leaf jobs *)
Record job := mkJob { j_name : Z; j_leaf : leafd; j_d : dval; j_x : xval; j_path : path; j_attrs : alist }.

Fixpoint flatten (n : node) (d : dval) (x : xval) (pth : path) (attrs : alist) {struct n} : list job :=
  match n with
  | Leaf nm _ l => [mkJob nm l d x pth attrs]
  | Group _ _ subs =>
    (fix go (ss : list node) : list job :=
       match ss with
       | [] => []
       | s :: r => flatten s (dget (ddict d) (node_name s)) (xget (xdict x) (node_name s))
                           (path_snoc pth (node_name s)) (amerge attrs (node_attrs s)) ++ go r
       end) subs
  end.
Fixpoint flatten_list (ss : list node) (d : dval) (x : xval) (pth : path) (attrs : alist) : list job :=
  match ss with
  | [] => []
  | s :: r => flatten s (dget (ddict d) (node_name s)) (xget (xdict x) (node_name s))
                      (path_snoc pth (node_name s)) (amerge attrs (node_attrs s)) ++ flatten_list r d x pth attrs
  end.
Lemma flatten_group nm a subs d x pth attrs :
  flatten (Group nm a subs) d x pth attrs = flatten_list subs d x pth attrs.
Proof. cbn [flatten]. induction subs as [|s r IH]; [reflexivity|]. cbn [flatten_list]. rewrite <- IH. reflexivity. Qed.

Fixpoint resolve_list (fuel : nat) (cm : connmap) (ss : list node) (d : dval) (x : xval) (pth : path)
         (attrs : alist) (st : state) : state * (err + list value) :=
  match ss with
  | [] => (st, inr [])
  | s :: r =>
    match resolve fuel cm s (dget (ddict d) (node_name s)) (xget (xdict x) (node_name s))
                  (path_snoc pth (node_name s)) (amerge attrs (node_attrs s)) st with
    | (st', inl e) => (st', inl e)
    | (st', inr v) => match resolve_list fuel cm r d x pth attrs st' with
                      | (st'', inl e) => (st'', inl e)
                      | (st'', inr vs) => (st'', inr (v :: vs))
                      end
    end
  end.
Lemma resolve_group fuel cm nm a subs d x pth attrs st :
  resolve fuel cm (Group nm a subs) d x pth attrs st =
  match resolve_list fuel cm subs d x pth attrs st with
  | (st', inl e) => (st', inl e)
  | (st', inr vs) => (st', inr (VGroup nm vs))
  end.
Proof.
  cbn [resolve].
  match goal with |- match ?f subs st with _ => _ end = _ =>
    assert (E : forall ss s0, f ss s0 = resolve_list fuel cm ss d x pth attrs s0) end.
  { induction ss as [|s r IH]; intros s0; [reflexivity|]. cbn [resolve_list].
    destruct (resolve fuel cm s (dget (ddict d) (node_name s)) (xget (xdict x) (node_name s))
                      (path_snoc pth (node_name s)) (amerge attrs (node_attrs s)) s0) as [s1 [e|v]]; [reflexivity|].
    rewrite IH. reflexivity. }
  rewrite E. reflexivity.
Qed.

Fixpoint leaves_list (vs : list value) : list lval :=
  match vs with [] => [] | v :: r => leaves v ++ leaves_list r end.
Lemma leaves_group nm vs : leaves (VGroup nm vs) = leaves_list vs.
Proof. cbn [leaves]. induction vs as [|v r IH]; [reflexivity|]. cbn [leaves_list]. rewrite <- IH. reflexivity. Qed.
Fixpoint leaves_of_list (ss : list node) : list leafd :=
  match ss with [] => [] | s :: r => leaves_of s ++ leaves_of_list r end.
Lemma leaves_of_group nm a ss : leaves_of (Group nm a ss) = leaves_of_list ss.
Proof. cbn [leaves_of]. induction ss as [|s r IH]; [reflexivity|]. cbn [leaves_of_list]. rewrite <- IH. reflexivity. Qed.

Fixpoint node_ind' (P : node -> Prop)
         (HL : forall nm a l, P (Leaf nm a l))
         (HG : forall nm a subs, Forall P subs -> P (Group nm a subs)) (n : node) {struct n} : P n :=
  match n with
  | Leaf nm a l => HL nm a l
  | Group nm a subs =>
    HG nm a subs ((fix go (ss : list node) : Forall P ss :=
                     match ss with
                     | [] => Forall_nil P
                     | s :: r => Forall_cons s (node_ind' P HL HG s) (go r)
                     end) subs)
  end.

Fixpoint run_jobs (fuel : nat) (cm : connmap) (js : list job) (st : state) : state * (err + list lval) :=
  match js with
  | [] => (st, inr [])
  | j :: r =>
    match resolve_leaf fuel cm (j_name j) (j_leaf j) (j_d j) (j_x j) (j_path j) (j_attrs j) st with
    | (st', inl e) => (st', inl e)
    | (st', inr v) => match run_jobs fuel cm r st' with
                      | (st'', inl e) => (st'', inl e)
                      | (st'', inr vs) => (st'', inr (v :: vs))
                      end
    end
  end.

Lemma run_jobs_app fuel cm : forall a b st,
  run_jobs fuel cm (a ++ b) st =
  match run_jobs fuel cm a st with
  | (st', inl e) => (st', inl e)
  | (st', inr va) => match run_jobs fuel cm b st' with
                     | (st'', inl e) => (st'', inl e)
                     | (st'', inr vb) => (st'', inr (va ++ vb))
                     end
  end.
Proof.
  induction a as [|j r IH]; intros b st; cbn [app run_jobs].
  - destruct (run_jobs fuel cm b st) as [s [e|v]]; reflexivity.
  - destruct (resolve_leaf fuel cm (j_name j) (j_leaf j) (j_d j) (j_x j) (j_path j) (j_attrs j) st) as [s1 [e|v]];
      [reflexivity|].
    rewrite IH. destruct (run_jobs fuel cm r s1) as [s2 [e|va]]; [reflexivity|].
    destruct (run_jobs fuel cm b s2) as [s3 [e|vb]]; reflexivity.
Qed.

Lemma resolve_flat fuel cm : forall n d x pth attrs st,
  run_jobs fuel cm (flatten n d x pth attrs) st =
  match resolve fuel cm n d x pth attrs st with
  | (st', inl e) => (st', inl e)
  | (st', inr v) => (st', inr (leaves v))
  end.
Proof.
  induction n as [nm a l|nm a subs IH] using node_ind'; intros d x pth attrs st.
  - cbn [flatten run_jobs resolve j_name j_leaf j_d j_x j_path j_attrs].
    destruct (resolve_leaf fuel cm nm l d x pth attrs st) as [s1 [e|v]]; reflexivity.
  - rewrite flatten_group, resolve_group.
    assert (E : forall st, run_jobs fuel cm (flatten_list subs d x pth attrs) st =
                match resolve_list fuel cm subs d x pth attrs st with
                | (st', inl e) => (st', inl e)
                | (st', inr vs) => (st', inr (leaves_list vs))
                end).
    { clear st. induction IH as [|s r Hs _ IHr]; intros st; [reflexivity|].
      cbn [flatten_list resolve_list]. rewrite run_jobs_app, Hs.
      destruct (resolve fuel cm s (dget (ddict d) (node_name s)) (xget (xdict x) (node_name s))
                        (path_snoc pth (node_name s)) (amerge attrs (node_attrs s)) st) as [s1 [e|v]]; [reflexivity|].
      rewrite IHr. destruct (resolve_list fuel cm r d x pth attrs s1) as [s2 [e|vs]]; reflexivity. }
    rewrite E. destruct (resolve_list fuel cm subs d x pth attrs st) as [s1 [e|vs]]; [reflexivity|].
    rewrite leaves_group. reflexivity.
Qed.

Lemma flatten_leaves : forall n d x pth attrs, map j_leaf (flatten n d x pth attrs) = leaves_of n.
Proof.
  induction n as [nm a l|nm a subs IH] using node_ind'; intros d x pth attrs; [reflexivity|].
  rewrite flatten_group, leaves_of_group.
  induction IH as [|s r Hs _ IHr]; [reflexivity|]. cbn [flatten_list leaves_of_list].
  rewrite map_app, Hs, IHr. reflexivity.
Qed.

Lemma flatten_path_head : forall n d x pth attrs, Forall (fun j => fst (j_path j) = fst pth) (flatten n d x pth attrs).
Proof.
  induction n as [nm a l|nm a subs IH] using node_ind'; intros d x pth attrs.
  - cbn. constructor; [reflexivity|constructor].
  - rewrite flatten_group. induction IH as [|s r Hs _ IHr]; [constructor|]. cbn [flatten_list].
    apply Forall_app. split; [|exact IHr]. exact (Hs _ _ (path_snoc pth (node_name s)) _).
Qed.

Definition lpins (vs : list lval) : list Z := concat (map (fun v => port_pins (lv_port v)) vs).

Lemma run_jobs_spec fuel cm : forall js st st' r, run_jobs fuel cm js st = (st', r) ->
  frame st st' /\
  match r with
  | inr vs => map fst (phys_reqd st') = map fst (phys_reqd st) ++ lpins vs /\
              (forall a, In a (lpins vs) -> ~ In a (map fst (phys_reqd st))) /\
              io_clocks st' = io_clocks st ++ concat (map clock_of vs) /\
              Forall2 (fun j v => leaf_matches fuel cm (j_path j) (j_attrs j) (j_leaf j) v) js vs
  | inl e => Forall (fun j => opts_ok (j_d j) (j_x j)) js ->
             Forall (fun j => leaf_resolves fuel cm (j_leaf j)) js -> e = EResource RConflict
  end.
Proof.
  induction js as [|j js IH]; intros st st' r H; cbn [run_jobs] in H.
  - inversion H; subst. split; [apply frame_refl|]. unfold lpins; cbn. rewrite !app_nil_r. repeat split; auto.
  - destruct (resolve_leaf fuel cm (j_name j) (j_leaf j) (j_d j) (j_x j) (j_path j) (j_attrs j) st)
      as [s1 [e|v]] eqn:E1; apply resolve_leaf_spec in E1; destruct E1 as (F1 & S1).
    + inversion H; subst. split; auto. intros Ho Hr. inversion Ho; inversion Hr; subst. auto.
    + destruct (run_jobs fuel cm js s1) as [s2 [e|vs]] eqn:E2; apply IH in E2; destruct E2 as (F2 & S2);
        inversion H; subst; (split; [eapply frame_trans; eauto|]).
      * intros Ho Hr. inversion Ho; inversion Hr; subst. auto.
      * destruct S1 as (M1 & D1 & C1 & L1). destruct S2 as (M2 & D2 & C2 & L2).
        unfold lpins in *. cbn [map concat]. repeat split.
        -- rewrite M2, M1, <- app_assoc. reflexivity.
        -- intros b Hb. apply in_app_or in Hb. destruct Hb as [Hb|Hb]; [auto|].
           intros Hin. apply (D2 b Hb). rewrite M1. apply in_or_app; auto.
        -- rewrite C2, C1, <- app_assoc. reflexivity.
        -- constructor; auto.
Qed.

(* ================================================================= E. one request *)
Lemma state_eta st : mkSt (requested st) (phys_reqd st) (io_clocks st) (pins st) = st.
Proof. destruct st; reflexivity. Qed.

Definition root_path (q : req) : path := (q_key q, []).

Lemma request_error t cm st q st' e : request t cm st q = (st', Error e) -> st' = st.
Proof.
  unfold request. destruct (tbl_lookup t (q_key q)) as [res|]; [|intros H; inversion H; auto].
  destruct (key_mem (q_key q) (requested st)); [intros H; inversion H; auto|].
  destruct (merge_options res (q_dir q) (q_xdr q)) as [e0|[d x]]; [intros H; inversion H; auto|].
  destruct (resolve (cm_fuel cm) cm res d x (q_key q, []) (node_attrs res) st) as [s1 [e1|v]] eqn:E;
    intros H; inversion H; subst.
  pose proof (resolve_flat (cm_fuel cm) cm res d x (q_key q, []) (node_attrs res) st) as RF. rewrite E in RF.
  apply run_jobs_spec in RF. destruct RF as ((R & [pe P] & _ & _) & _).
  rewrite R, P, firstn_app, Nat.sub_diag, firstn_all. cbn. rewrite app_nil_r. apply state_eta.
Qed.

Definition wf_port (p : port) : Prop := pt_diff p = false -> pt_n p = [].

Lemma request_ok t cm st q st' v : request t cm st q = (st', Ok v) ->
  exists res d x, tbl_lookup t (q_key q) = Some res /\ key_mem (q_key q) (requested st) = false /\
    merge_options res (q_dir q) (q_xdr q) = inr (d, x) /\
    requested st' = requested st ++ [q_key q] /\
    map fst (phys_reqd st') = map fst (phys_reqd st) ++ value_pins v /\
    (forall a, In a (value_pins v) -> ~ In a (map fst (phys_reqd st))) /\
    (NoDup (map fst (phys_reqd st)) -> NoDup (map fst (phys_reqd st'))) /\
    io_clocks st' = io_clocks st ++ value_clocks v /\
    Forall2 (fun j l => leaf_matches (cm_fuel cm) cm (j_path j) (j_attrs j) (j_leaf j) l)
            (flatten res d x (root_path q) (node_attrs res)) (leaves v).
Proof.
  unfold request. destruct (tbl_lookup t (q_key q)) as [res|]; [|intros H; inversion H].
  destruct (key_mem (q_key q) (requested st)) eqn:Ek; [intros H; inversion H|].
  destruct (merge_options res (q_dir q) (q_xdr q)) as [e0|[d x]] eqn:Em; [intros H; inversion H|].
  destruct (resolve (cm_fuel cm) cm res d x (q_key q, []) (node_attrs res) st) as [s1 [e1|v1]] eqn:E;
    intros H; inversion H; subst.
  pose proof (resolve_flat (cm_fuel cm) cm res d x (q_key q, []) (node_attrs res) st) as RF. rewrite E in RF.
  apply run_jobs_spec in RF. destruct RF as ((R & _ & _ & N) & M & D & C & L).
  exists res, d, x. cbn. rewrite R. repeat split; auto.
Qed.

Lemma Forall2_map_l {A B C} (R : B -> C -> Prop) (f : A -> B) : forall la lc,
  Forall2 (fun a c => R (f a) c) la lc -> Forall2 R (map f la) lc.
Proof. induction 1; cbn; constructor; auto. Qed.
Lemma Forall2_In_l {A B} (R : A -> B -> Prop) : forall la lb a, Forall2 R la lb -> In a la -> exists b, In b lb /\ R a b.
Proof.
  induction 1 as [|x y la lb Hxy _ IH]; intros Hin; [destruct Hin|].
  destruct Hin as [<-|Hin]; [exists y; split; [left; reflexivity|exact Hxy]|].
  destruct (IH Hin) as (b & Hb & Hr). exists b; split; [right; exact Hb|exact Hr].
Qed.
Lemma Forall2_Forall_r {A B} (R : A -> B -> Prop) (P : B -> Prop) : forall la lb,
  Forall2 R la lb -> (forall a b, R a b -> P b) -> Forall P lb.
Proof. induction 1; intros HP; constructor; eauto. Qed.
Lemma Forall2_Forall_l {A B} (R : A -> B -> Prop) (P : A -> Prop) (Q : A -> B -> Prop) : forall la lb,
  Forall2 R la lb -> Forall P la -> (forall a b, R a b -> P a -> Q a b) -> Forall2 Q la lb.
Proof. induction 1; intros HP HQ; constructor; inversion HP; subst; eauto. Qed.

(* the declaration-level reading of a returned leaf: bit k of the port carries the k-th declared
   name after connector resolution; inversion, direction (oe -> o) and clock as declared *)
Definition names_resolve (cm : connmap) (ns : list pname) (ps : list Z) : Prop :=
  Forall2 (fun n p => resolve_name (cm_fuel cm) cm n = MOk p) ns ps.
Definition decl_matches (cm : connmap) (l : leafd) (v : lval) : Prop :=
  let pt := lv_port v in
  pt_inv pt = l_inv l /\ pt_dir pt = out_dir (l_dir l) /\ lv_clock v = l_clock l /\
  match l_phys l with
  | PPins ns => pt_diff pt = false /\ names_resolve cm ns (pt_p pt) /\ pt_n pt = []
  | PDiff ps ns => pt_diff pt = true /\ names_resolve cm ps (pt_p pt) /\ names_resolve cm ns (pt_n pt)
  end.
Lemma leaf_matches_decl cm pth attrs l v : leaf_matches (cm_fuel cm) cm pth attrs l v -> decl_matches cm l v.
Proof.
  unfold leaf_matches, decl_matches, names_resolve. intros (_ & _ & Hi & Hd & Hc & Hp). repeat split; auto.
  destruct (l_phys l); destruct Hp as (H1 & H2 & H3); repeat split; auto using map_names_Forall2.
Qed.
Lemma leaf_matches_wf cm pth attrs l v : leaf_matches (cm_fuel cm) cm pth attrs l v -> wf_port (lv_port v).
Proof.
  unfold leaf_matches, wf_port. intros (_ & _ & _ & _ & _ & Hp) Hd.
  destruct (l_phys l); destruct Hp as (H1 & H2 & H3); [auto|congruence].
Qed.

Lemma request_ok_decl t cm st q st' v : request t cm st q = (st', Ok v) ->
  exists res, tbl_lookup t (q_key q) = Some res /\
    Forall2 (decl_matches cm) (leaves_of res) (leaves v) /\
    Forall (fun l => fst (pt_path (lv_port l)) = q_key q /\ wf_port (lv_port l)) (leaves v).
Proof.
  intros H. destruct (request_ok _ _ _ _ _ _ H) as (res & d & x & Hl & _ & _ & _ & _ & _ & _ & _ & L).
  exists res. split; auto. split.
  - rewrite <- (flatten_leaves res d x (root_path q) (node_attrs res)). apply Forall2_map_l.
    eapply Forall2_Forall_l with (P := fun _ => True); [exact L|apply Forall_forall; auto|].
    intros j l Hm _. cbn beta. eapply leaf_matches_decl. exact Hm.
  - pose proof (flatten_path_head res d x (root_path q) (node_attrs res)) as HP.
    assert (L2 : Forall2 (fun j l => fst (pt_path (lv_port l)) = q_key q /\ wf_port (lv_port l))
                         (flatten res d x (root_path q) (node_attrs res)) (leaves v)).
    { eapply Forall2_Forall_l; [exact L|exact HP|]. intros j l Hm Hj. split.
      - destruct Hm as (Hpth & _). rewrite Hpth, Hj. reflexivity.
      - eapply leaf_matches_wf. exact Hm. }
    eapply Forall2_Forall_r; [exact L2|]. auto.
Qed.

Lemma request_again t cm st q : In (q_key q) (requested st) ->
  request t cm st q =
  (st, Error (EResource (match tbl_lookup t (q_key q) with Some _ => RAgain | None => RNoSuch end))).
Proof.
  intros Hin. unfold request. destruct (tbl_lookup t (q_key q)); [|reflexivity].
  apply key_mem_In in Hin. rewrite Hin. reflexivity.
Qed.

(* pins a resource would occupy, after connector resolution *)
Definition phys_lists (p : phys) : list (list pname) := match p with PPins ns => [ns] | PDiff ps ns => [ps; ns] end.
Definition leaf_uses (cm : connmap) (l : leafd) (a : Z) : Prop :=
  exists ns pl, In ns (phys_lists (l_phys l)) /\ map_names (cm_fuel cm) cm ns = LOk pl /\ In a pl.
Definition uses (cm : connmap) (res : node) (a : Z) : Prop := exists l, In l (leaves_of res) /\ leaf_uses cm l a.

Lemma request_conflict t cm st q res st' r :
  tbl_lookup t (q_key q) = Some res -> request t cm st q = (st', r) ->
  (exists a, In a (map fst (phys_reqd st)) /\ uses cm res a) ->
  exists e, r = Error e /\ st' = st.
Proof.
  intros Hl H (a & Ha & l & Hlin & ns & pl & Hns & Hm & Hapl).
  destruct r as [v|e]; [|exists e; split; auto; eapply request_error; eauto].
  exfalso. destruct (request_ok _ _ _ _ _ _ H) as (res' & d & x & Hl' & _ & _ & _ & _ & D & _ & _ & L).
  rewrite Hl in Hl'. inversion Hl'; subst res'.
  rewrite <- (flatten_leaves res d x (root_path q) (node_attrs res)) in Hlin.
  apply in_map_iff in Hlin. destruct Hlin as (j & Hj & Hjin).
  destruct (Forall2_In_l _ _ _ _ L Hjin) as (lv & Hlv & Hmatch).
  apply (D a); [|exact Ha].
  unfold value_pins. apply in_concat. exists (port_pins (lv_port lv)). split.
  - apply in_map_iff. exists lv; auto.
  - destruct Hmatch as (_ & _ & _ & _ & _ & Hp). rewrite Hj in Hp. unfold port_pins.
    destruct (l_phys l); cbn in Hns.
    + destruct Hns as [<-|[]]. destruct Hp as (_ & Hp & _). rewrite Hm in Hp. inversion Hp; subst.
      apply in_or_app; auto.
    + destruct Hp as (_ & Hp1 & Hp2). destruct Hns as [<-|[<-|[]]].
      * rewrite Hm in Hp1. inversion Hp1; subst. apply in_or_app; auto.
      * rewrite Hm in Hp2. inversion Hp2; subst. apply in_or_app; auto.
Qed.

Lemma request_refusal_kind t cm st q res d x st' e :
  tbl_lookup t (q_key q) = Some res -> key_mem (q_key q) (requested st) = false ->
  merge_options res (q_dir q) (q_xdr q) = inr (d, x) ->
  Forall (fun j => opts_ok (j_d j) (j_x j)) (flatten res d x (root_path q) (node_attrs res)) ->
  Forall (leaf_resolves (cm_fuel cm) cm) (leaves_of res) ->
  request t cm st q = (st', Error e) -> e = EResource RConflict.
Proof.
  intros Hl Hk Hm Ho Hr. unfold request. rewrite Hl, Hk, Hm.
  destruct (resolve (cm_fuel cm) cm res d x (q_key q, []) (node_attrs res) st) as [s1 [e1|v1]] eqn:E;
    intros H; inversion H; subst.
  pose proof (resolve_flat (cm_fuel cm) cm res d x (q_key q, []) (node_attrs res) st) as RF. rewrite E in RF.
  apply run_jobs_spec in RF. destruct RF as (_ & K). apply K; auto.
  rewrite <- (flatten_leaves res d x (root_path q) (node_attrs res)) in Hr.
  rewrite Forall_map in Hr. exact Hr.
Qed.

(* ================================================================= F. histories *)
Lemma granted_app a b : granted (a ++ b) = granted a ++ granted b.
Proof. induction a as [|[q [v|e]] r IH]; cbn; [reflexivity|rewrite IH; reflexivity|exact IH]. Qed.

Lemma fold_left_inv {A B} (f : A -> B -> A) (P : A -> Prop) :
  (forall a b, P a -> P (f a b)) -> forall l a, P a -> P (fold_left f l a).
Proof. intros Hs; induction l as [|b l IH]; cbn; auto. Qed.

Definition gkeys (g : list (req * value)) : list key := map (fun qv => q_key (fst qv)) g.
Definition gpins (g : list (req * value)) : list Z := concat (map (fun qv => value_pins (snd qv)) g).
Definition gclocks (g : list (req * value)) : list ((path * Z) * Z) := concat (map (fun qv => value_clocks (snd qv)) g).
Definition decl_clocks (res : node) : list Z :=
  concat (map (fun l => match l_clock l with Some f => [f] | None => [] end) (leaves_of res)).

Definition granted_ok (t : table) (cm : connmap) (qv : req * value) : Prop :=
  exists res, tbl_lookup t (q_key (fst qv)) = Some res /\
    Forall2 (decl_matches cm) (leaves_of res) (leaves (snd qv)) /\
    Forall (fun l => fst (pt_path (lv_port l)) = q_key (fst qv) /\ wf_port (lv_port l)) (leaves (snd qv)).

Definition Inv (t : table) (cm : connmap) (acc : state * list (req * result)) : Prop :=
  let st := fst acc in let g := granted (snd acc) in
  requested st = gkeys g /\ map fst (phys_reqd st) = gpins g /\ NoDup (gpins g) /\
  io_clocks st = gclocks g /\ NoDup (gkeys g) /\ Forall (granted_ok t cm) g.

Lemma step_inv t cm acc q : Inv t cm acc -> Inv t cm (step t cm acc q).
Proof.
  destruct acc as [st outs]. unfold Inv, step. cbn [fst snd]. intros (R & P & N & C & K & G).
  destruct (request t cm st q) as [st' [v|e]] eqn:E; cbn [fst snd]; rewrite granted_app; cbn [granted].
  - pose proof (request_ok_decl _ _ _ _ _ _ E) as GO.
    destruct (request_ok _ _ _ _ _ _ E) as (res & d & x & Hl & Hk & _ & R' & P' & D' & N' & C' & _).
    unfold gkeys, gpins, gclocks in *. rewrite !map_app, !concat_app. cbn [map concat fst snd]. rewrite !app_nil_r.
    repeat split.
    + rewrite R', R. reflexivity.
    + rewrite P', P. reflexivity.
    + rewrite <- P, <- P'. apply N'. rewrite P. exact N.
    + rewrite C', C. reflexivity.
    + rewrite <- R. apply NoDup_snoc; [rewrite R; exact K|]. rewrite <- key_mem_In. congruence.
    + apply Forall_app. split; [exact G|]. constructor; [exact GO|constructor].
  - apply request_error in E. subst st'. rewrite app_nil_r. repeat split; auto.
Qed.

Lemma run_inv t cm hist : Inv t cm (run t cm hist).
Proof.
  unfold run. apply fold_left_inv; [intros; apply step_inv; assumption|].
  unfold Inv; cbn. repeat split; constructor.
Qed.

(* ================================================================= G. constraints *)
Lemma bits_from_pins port at_ : forall meta k, map c_pin (bits_from port at_ k meta) = meta.
Proof. induction meta as [|m r IH]; intros k; cbn; [reflexivity|rewrite IH; reflexivity]. Qed.
Lemma port_entries_pins p : map c_pin (port_entries p) = io_meta p.
Proof. unfold port_entries. destruct (io_meta p) as [|m [|m2 r]]; try reflexivity. apply bits_from_pins. Qed.
Lemma port_constraints_pins ports : map c_pin (port_constraints ports) = concat (map io_meta ports).
Proof.
  unfold port_constraints. induction ports as [|p r IH]; cbn; [reflexivity|].
  rewrite map_app, port_entries_pins, IH. reflexivity.
Qed.
Lemma port_ioports_pins p : wf_port p -> concat (map io_meta (port_ioports p)) = port_pins p.
Proof.
  unfold wf_port, port_ioports, port_pins. destruct (pt_diff p); cbn; intros H.
  - rewrite app_nil_r. reflexivity.
  - rewrite H by reflexivity. reflexivity.
Qed.
Lemma value_ioports_pins v : Forall (fun l => wf_port (lv_port l)) (leaves v) ->
  concat (map io_meta (value_ioports v)) = value_pins v.
Proof.
  unfold value_ioports, value_pins. induction 1 as [|l r Hl _ IH]; cbn; [reflexivity|].
  rewrite map_app, concat_app, IH, port_ioports_pins by exact Hl. reflexivity.
Qed.

Definition gports (g : list (req * value)) : list ioport := concat (map (fun qv => value_ioports (snd qv)) g).
Lemma gports_pins t cm g : Forall (granted_ok t cm) g -> concat (map io_meta (gports g)) = gpins g.
Proof.
  unfold gports, gpins. induction 1 as [|qv r (res & _ & _ & Hw) _ IH]; cbn; [reflexivity|].
  rewrite map_app, concat_app, IH, value_ioports_pins; [reflexivity|].
  eapply Forall_impl; [|exact Hw]. cbn. tauto.
Qed.

Lemma NoDup_concat_filter {A B} (g : A -> list B) (f : A -> bool) : forall l,
  NoDup (concat (map g l)) -> NoDup (concat (map g (filter f l))).
Proof.
  induction l as [|a r IH]; cbn; auto. intros H.
  destruct (NoDup_app_inv _ _ H) as (Ha & Hr & Hd).
  destruct (f a); cbn; auto.
  apply NoDup_app_intro; auto. intros x Hx Hin. apply (Hd x Hx).
  apply in_concat in Hin. destruct Hin as (lst & Hl & Hxl). apply in_concat. exists lst. split; auto.
  apply in_map_iff in Hl. destruct Hl as (y & <- & Hy). apply in_map_iff. exists y. split; auto.
  apply filter_In in Hy. tauto.
Qed.

Lemma bits_from_nth port at_ : forall meta k0 k m, nth_error meta k = Some m ->
  nth_error (bits_from port at_ k0 meta) k = Some (mkC port (Some (k0 + Z.of_nat k)) m at_).
Proof.
  induction meta as [|m0 r IH]; intros k0 k m H; destruct k as [|k]; cbn in H; try discriminate.
  - inversion H; subst. cbn. rewrite Z.add_0_r. reflexivity.
  - cbn [bits_from nth_error]. rewrite (IH (k0 + 1) k m H).
    replace (k0 + Z.of_nat (S k)) with (k0 + 1 + Z.of_nat k) by lia. reflexivity.
Qed.
Definition bit_name (width : nat) (k : nat) : option Z := if Nat.eqb width 1 then None else Some (Z.of_nat k).
Lemma port_entries_nth p k m : nth_error (io_meta p) k = Some m ->
  nth_error (port_entries p) k = Some (mkC (io_name p) (bit_name (length (io_meta p)) k) m (io_attrs p)).
Proof.
  unfold port_entries, bit_name. destruct (io_meta p) as [|m0 [|m1 r]] eqn:E; intros H.
  - destruct k; discriminate.
  - destruct k as [|[|k]]; cbn in H; try discriminate. inversion H; subst. reflexivity.
  - rewrite (bits_from_nth _ _ _ 0 k m H). reflexivity.
Qed.
Lemma port_entries_length p : length (port_entries p) = length (io_meta p).
Proof. rewrite <- (port_entries_pins p), map_length. reflexivity. Qed.

Lemma decl_clocks_value cm res v : Forall2 (decl_matches cm) (leaves_of res) (leaves v) ->
  map snd (value_clocks v) = decl_clocks res.
Proof.
  unfold value_clocks, decl_clocks. induction 1 as [|l lv ls lvs (_ & _ & Hc & _) _ IH]; cbn; [reflexivity|].
  rewrite map_app, IH. f_equal. unfold clock_of. rewrite Hc. destruct (l_clock l); reflexivity.
Qed.

(* distinct granted requests own distinct port names *)
Lemma gports_names_head t cm g : Forall (granted_ok t cm) g ->
  forall p, In p (gports g) -> In (fst (fst (io_name p))) (gkeys g).
Proof.
  unfold gports, gkeys. induction 1 as [|qv r (res & _ & _ & Hw) _ IH]; cbn; intros p Hp; [destruct Hp|].
  apply in_app_or in Hp. destruct Hp as [Hp|Hp]; [left|right; auto].
  unfold value_ioports in Hp. apply in_concat in Hp. destruct Hp as (lst & Hl & Hpl).
  apply in_map_iff in Hl. destruct Hl as (l & <- & Hlin).
  rewrite Forall_forall in Hw. destruct (Hw l Hlin) as (Hh & _).
  unfold port_ioports in Hpl. destruct (pt_diff (lv_port l)); cbn in Hpl;
    repeat (destruct Hpl as [<-|Hpl]; [cbn; congruence|]); destruct Hpl.
Qed.

(* ================================================================= H. merge_options for dir="-" *)
Inductive wf_node : node -> Prop :=
| wf_leaf nm a l : wf_node (Leaf nm a l)
| wf_group nm a subs : NoDup (map node_name subs) -> Forall wf_node subs -> wf_node (Group nm a subs).

Lemma dict_get_set_same {V} (l : list (Z * V)) k v : dict_get (dict_set l k v) k = Some v.
Proof.
  induction l as [|[k' v'] r IH]; cbn; [rewrite Z.eqb_refl; reflexivity|].
  destruct (k' =? k) eqn:E; cbn; [rewrite Z.eqb_refl; reflexivity|rewrite E; exact IH].
Qed.
Lemma dict_get_set_other {V} (l : list (Z * V)) k k2 v : k2 <> k -> dict_get (dict_set l k v) k2 = dict_get l k2.
Proof.
  intros Hne. induction l as [|[k' v'] r IH]; cbn.
  - destruct (k =? k2) eqn:E; [apply Z.eqb_eq in E; congruence|reflexivity].
  - destruct (k' =? k) eqn:E; cbn.
    + apply Z.eqb_eq in E; subst k'. destruct (k =? k2) eqn:E2; [apply Z.eqb_eq in E2; congruence|reflexivity].
    + destruct (k' =? k2); [reflexivity|exact IH].
Qed.

Fixpoint merge_list (dash : bool) (ss : list node) (dd : list (Z * dval)) (xd : list (Z * xval)) : err + (dval * xval) :=
  match ss with
  | [] => inr (DDict dd, XDict xd)
  | s :: r =>
    let sd := if dash then DDash else dget dd (node_name s) in
    let sx := xget xd (node_name s) in
    match merge_options s sd sx with
    | inl e => inl e
    | inr (d', x') => merge_list dash r (dict_set dd (node_name s) d') (dict_set xd (node_name s) x')
    end
  end.
Lemma merge_group_dash nm a subs :
  merge_options (Group nm a subs) DDash XNone = merge_list true subs [] [].
Proof.
  cbn [merge_options].
  match goal with |- ?f subs [] [] = _ => assert (E : forall ss dd xd, f ss dd xd = merge_list true ss dd xd) end.
  { induction ss as [|s r IH]; intros dd xd; [reflexivity|]. cbn [merge_list].
    destruct (merge_options s DDash (xget xd (node_name s))) as [e|[d' x']]; [reflexivity|]. apply IH. }
  apply E.
Qed.

(* every leaf option is "-" *)
Inductive dashed : node -> dval -> Prop :=
| dashed_leaf nm a l : dashed (Leaf nm a l) DDash
| dashed_group nm a subs dd : Forall (fun s => dashed s (dget dd (node_name s))) subs -> dashed (Group nm a subs) (DDict dd).

Lemma merge_dash : forall n, wf_node n -> exists d' x', merge_options n DDash XNone = inr (d', x') /\ dashed n d'.
Proof.
  induction n as [nm a l|nm a subs IH] using node_ind'; intros Hwf.
  - exists DDash, (XInt 0). split; [reflexivity|constructor].
  - inversion Hwf as [|? ? ? Hnd Hsub]; subst. rewrite merge_group_dash.
    assert (L : forall ss, Forall (fun n => wf_node n -> exists d' x', merge_options n DDash XNone = inr (d', x') /\ dashed n d') ss ->
                Forall wf_node ss -> NoDup (map node_name ss) ->
                forall dd xd, (forall s, In s ss -> xget xd (node_name s) = XNone) ->
                exists dd' xd', merge_list true ss dd xd = inr (DDict dd', XDict xd') /\
                  Forall (fun s => dashed s (dget dd' (node_name s))) ss /\
                  (forall k, ~ In k (map node_name ss) -> dict_get dd' k = dict_get dd k)).
    { clear. induction ss as [|s r IHr]; intros HI Hw Hn dd xd Hx.
      - exists dd, xd. repeat split; auto.
      - inversion HI as [|? ? His HIr]; inversion Hw as [|? ? Hws Hwr]; inversion Hn as [|? ? Hnin Hnr]; subst.
        destruct (His Hws) as (d' & x' & Hm & Hd).
        cbn [merge_list]. rewrite (Hx s (or_introl eq_refl)), Hm.
        destruct (IHr HIr Hwr Hnr (dict_set dd (node_name s) d') (dict_set xd (node_name s) x')) as (dd' & xd' & Hml & Hall & Hkeep).
        { intros s2 Hs2. unfold xget. rewrite dict_get_set_other.
          - apply (Hx s2). right; exact Hs2.
          - intros Heq. apply Hnin. rewrite <- Heq. apply in_map. exact Hs2. }
        exists dd', xd'. split; [exact Hml|]. split.
        + constructor; [|exact Hall]. unfold dget. rewrite (Hkeep _ Hnin), dict_get_set_same. exact Hd.
        + intros k Hk. cbn in Hk. rewrite Hkeep by tauto. apply dict_get_set_other. intros ->. tauto. }
    destruct (L subs IH Hsub Hnd [] []) as (dd' & xd' & Hml & Hall & _); [reflexivity|].
    exists (DDict dd'), (XDict xd'). split; [exact Hml|]. constructor. exact Hall.
Qed.

Lemma dashed_flatten : forall n d, dashed n d -> forall x pth attrs,
  Forall (fun j => opts_ok (j_d j) (j_x j)) (flatten n d x pth attrs).
Proof.
  induction n as [nm a l|nm a subs IH] using node_ind'; intros d Hd x pth attrs.
  - inversion Hd; subst. cbn. constructor; [left; reflexivity|constructor].
  - inversion Hd as [|? ? ? dd Hall]; subst. rewrite flatten_group. cbn [ddict].
    induction IH as [|s r Hs _ IHr]; [constructor|]. inversion Hall as [|? ? Hds Hdr]; subst.
    cbn [flatten_list ddict]. apply Forall_app. split; [apply Hs; exact Hds|].
    apply IHr; [constructor; exact Hdr|exact Hdr].
Qed.

(* a dir="-" request on a well-formed resource whose names all resolve can only be refused with ResourceError *)
Lemma request_dash_refusal t cm st q res st' e :
  tbl_lookup t (q_key q) = Some res -> key_mem (q_key q) (requested st) = false ->
  wf_node res -> q_dir q = DDash -> q_xdr q = XNone ->
  Forall (leaf_resolves (cm_fuel cm) cm) (leaves_of res) ->
  request t cm st q = (st', Error e) -> e = EResource RConflict.
Proof.
  intros Hl Hk Hwf Hd Hx Hr H. destruct (merge_dash res Hwf) as (d' & x' & Hm & Hds).
  eapply (request_refusal_kind t cm st q res d' x' st' e); eauto.
  - rewrite Hd, Hx. exact Hm.
  - apply dashed_flatten. exact Hds.
Qed.

(* ================================================================= I. build plans *)
Inductive subl {A} : list A -> list A -> Prop :=
| subl_nil : subl [] []
| subl_skip a l1 l2 : subl l1 l2 -> subl l1 (a :: l2)
| subl_keep a l1 l2 : subl l1 l2 -> subl (a :: l1) (a :: l2).
Lemma subl_refl {A} (l : list A) : subl l l.
Proof. induction l; [apply subl_nil|apply subl_keep; auto]. Qed.
Lemma subl_nil_l {A} (l : list A) : subl [] l.
Proof. induction l; [apply subl_nil|apply subl_skip; auto]. Qed.
Lemma subl_In {A} (l1 l2 : list A) x : subl l1 l2 -> In x l1 -> In x l2.
Proof. induction 1; cbn; intuition. Qed.
Lemma subl_NoDup {A} (l1 l2 : list A) : subl l1 l2 -> NoDup l2 -> NoDup l1.
Proof.
  induction 1 as [|a l1 l2 H IH|a l1 l2 H IH]; intros Hn; auto; inversion Hn; subst; auto.
  constructor; auto. intros Hin. eapply subl_In in Hin; eauto.
Qed.
Lemma subl_app {A} (a1 a2 b1 b2 : list A) : subl a1 a2 -> subl b1 b2 -> subl (a1 ++ b1) (a2 ++ b2).
Proof. induction 1; cbn; intros Hb; auto; [apply subl_skip|apply subl_keep]; auto. Qed.
Lemma subl_app_skip {A} (x y z : list A) : subl x y -> subl x (z ++ y).
Proof. intros H. induction z; cbn; auto. apply subl_skip; auto. Qed.
Lemma subl_filter {A} (f : A -> bool) (l : list A) : subl (filter f l) l.
Proof. induction l as [|a l IH]; cbn; [constructor|]. destruct (f a); [apply subl_keep|apply subl_skip]; auto. Qed.
Lemma subl_map {A B} (f : A -> B) (l1 l2 : list A) : subl l1 l2 -> subl (map f l1) (map f l2).
Proof. induction 1; cbn; [apply subl_nil|apply subl_skip|apply subl_keep]; auto. Qed.
Lemma subl_concat {A} (l1 l2 : list (list A)) : subl l1 l2 -> subl (concat l1) (concat l2).
Proof.
  induction 1; cbn; [constructor|apply subl_app_skip; auto|apply subl_app; auto using subl_refl].
Qed.
Lemma subl_concat_map2 {A B} (g' g : A -> list B) : forall l' l, subl l' l ->
  (forall a, In a l -> subl (g' a) (g a)) -> subl (concat (map g' l')) (concat (map g l)).
Proof.
  induction 1 as [|a l1 l2 H IH|a l1 l2 H IH]; cbn; intros Hg; [constructor| |].
  - apply subl_app_skip. apply IH. intros; apply Hg; auto.
  - apply subl_app; [apply Hg; auto|]. apply IH. intros; apply Hg; auto.
Qed.
Lemma concat_map_concat {A B C} (f : B -> C) (h : A -> list B) (ls : list A) :
  concat (map (fun x => map f (h x)) ls) = map f (concat (map h ls)).
Proof. induction ls as [|a r IH]; cbn; [reflexivity|]. rewrite map_app, IH. reflexivity. Qed.
Lemma concat_concat_map {A B} (h : A -> list (list B)) (ls : list A) :
  concat (concat (map h ls)) = concat (map (fun x => concat (h x)) ls).
Proof. induction ls as [|a r IH]; cbn; [reflexivity|]. rewrite concat_app, IH. reflexivity. Qed.

Definition gleaves (g : list (req * value)) : list lval := concat (map (fun qv => leaves (snd qv)) g).
Lemma gpins_gleaves g : gpins g = lpins (gleaves g).
Proof.
  unfold gpins, gleaves, lpins, value_pins. induction g as [|qv r IH]; cbn; [reflexivity|].
  rewrite map_app, concat_app, IH. reflexivity.
Qed.
Lemma granted_ok_wf t cm g : Forall (granted_ok t cm) g -> Forall (fun l => wf_port (lv_port l)) (gleaves g).
Proof.
  unfold gleaves. induction 1 as [|qv r (res & _ & _ & Hw) _ IH]; cbn; [constructor|].
  apply Forall_app. split; [|exact IH]. eapply Forall_impl; [|exact Hw]. cbn. tauto.
Qed.

Lemma used_pins_subl v (ls' ls : list lval) : subl ls' ls -> Forall (fun l => wf_port (lv_port l)) ls ->
  subl (map c_pin (port_constraints (concat (map (fun l => used_ioports v (lv_port l)) ls')))) (lpins ls).
Proof.
  intros Hs Hw. rewrite port_constraints_pins. rewrite <- concat_map_concat, concat_concat_map.
  unfold lpins. apply subl_concat_map2; [exact Hs|].
  intros l Hl. rewrite Forall_forall in Hw. rewrite <- (port_ioports_pins _ (Hw l Hl)).
  apply subl_concat. apply subl_map. apply subl_filter.
Qed.

Lemma sys_go_run t cm : forall ex st outs vals st' vals',
  sys_go t cm ex st vals = inr (st', vals') ->
  exists sv, vals' = vals ++ sv /\ length sv = length ex /\
    fold_left (step t cm) ex (st, outs) = (st', outs ++ combine ex (map Ok sv)).
Proof.
  induction ex as [|q r IH]; intros st outs vals st' vals' H; cbn in H.
  - inversion H; subst. exists []. rewrite !app_nil_r. auto.
  - destruct (request t cm st q) as [s1 [v|e]] eqn:E; [|discriminate].
    destruct (IH s1 (outs ++ [(q, Ok v)]) _ _ _ H) as (sv & Hv & Hl & Hf).
    exists (v :: sv). rewrite Hv, <- app_assoc. split; [reflexivity|]. split; [cbn; lia|].
    cbn [fold_left]. unfold step at 2. cbn [fst snd]. rewrite E, Hf, <- app_assoc. reflexivity.
Qed.
Lemma granted_combine_ok ex : forall sv, length sv = length ex -> granted (combine ex (map Ok sv)) = combine ex sv.
Proof. induction ex as [|q r IH]; intros [|v sv] H; cbn in *; try discriminate; auto. rewrite IH by lia. reflexivity. Qed.
Lemma gleaves_combine ex : forall sv, length sv = length ex -> gleaves (combine ex sv) = concat (map leaves sv).
Proof.
  unfold gleaves. induction ex as [|q r IH]; intros [|v sv] H; cbn in *; try discriminate; auto.
  rewrite IH by lia. reflexivity.
Qed.

Lemma port_constraints_app a b : port_constraints (a ++ b) = port_constraints a ++ port_constraints b.
Proof. unfold port_constraints. rewrite map_app, concat_app. reflexivity. Qed.
Lemma design_constraints_res ps : design_constraints (map DRes ps) = port_constraints ps.
Proof. unfold design_constraints, port_constraints. rewrite map_map. reflexivity. Qed.
Lemma design_constraints_app a b : design_constraints (a ++ b) = design_constraints a ++ design_constraints b.
Proof. unfold design_constraints. rewrite map_app, concat_app. reflexivity. Qed.
Lemma design_constraints_raws_at raw i : design_constraints (raws_at raw i) = [].
Proof.
  induction raw as [|[k w] r IH]; cbn [raws_at]; [reflexivity|]. rewrite design_constraints_app, IH.
  destruct (Nat.eqb k i); reflexivity.
Qed.
Lemma design_constraints_raws_from raw i : design_constraints (raws_from raw i) = [].
Proof.
  induction raw as [|[k w] r IH]; cbn [raws_from]; [reflexivity|]. rewrite design_constraints_app, IH.
  destruct (Nat.leb i k); reflexivity.
Qed.
(* raw ports contribute nothing and do not disturb the lines of the requested ports, wherever they sit *)
Lemma design_constraints_weave v raw : forall ls i,
  design_constraints (weave v raw i ls) = port_constraints (concat (map (fun l => used_ioports v (lv_port l)) ls)).
Proof.
  induction ls as [|l r IH]; intros i; cbn [weave map concat].
  - apply design_constraints_raws_from.
  - rewrite !design_constraints_app, design_constraints_raws_at, design_constraints_res, IH.
    unfold port_constraints. rewrite map_app, concat_app. reflexivity.
Qed.
Lemma build_raw_irrelevant v t cm hist dclk drst unused raw :
  build v t cm hist dclk drst unused raw = build v t cm hist dclk drst unused [].
Proof.
  unfold build. destruct (sys_go t cm (sys_reqs dclk drst) (fst (run t cm hist)) []) as [e|[st sv]]; [reflexivity|].
  rewrite !design_constraints_app, !design_constraints_weave. reflexivity.
Qed.

Lemma build_spec v t cm hist dclk drst unused raw outs pl :
  build v t cm hist dclk drst unused raw = (outs, inr pl) ->
  outs = snd (run t cm hist) /\
  exists st outs', run t cm (hist ++ sys_reqs dclk drst) = (st, outs') /\
    subl (map c_pin (pl_constraints pl)) (map fst (phys_reqd st)) /\
    NoDup (map c_pin (pl_constraints pl)) /\
    pl_clocks pl = (if vendor_clocks v then io_clocks st else []).
Proof.
  unfold build.
  destruct (run t cm hist) as [st0 outs0] eqn:Er. cbn [fst snd].
  destruct (sys_go t cm (sys_reqs dclk drst) st0 []) as [e|[st sv]] eqn:Eg; intros H; inversion H; subst; clear H.
  rewrite design_constraints_app, design_constraints_weave, design_constraints_res, <- port_constraints_app,
    <- concat_app, <- map_app.
  split; [reflexivity|].
  destruct (sys_go_run t cm _ _ outs _ _ _ Eg) as (sv' & Hv & Hl & Hf). cbn in Hv. subst sv'.
  exists st, (outs ++ combine (sys_reqs dclk drst) (map Ok sv)).
  assert (Hrun : run t cm (hist ++ sys_reqs dclk drst) = (st, outs ++ combine (sys_reqs dclk drst) (map Ok sv))).
  { unfold run in *. rewrite fold_left_app, Er. exact Hf. }
  split; [exact Hrun|].
  pose proof (run_inv t cm (hist ++ sys_reqs dclk drst)) as I. rewrite Hrun in I.
  unfold Inv in I. cbn [fst snd] in I. destruct I as (_ & P & N & _ & _ & G).
  rewrite granted_app, granted_combine_ok in * by exact Hl.
  set (g := granted outs ++ combine (sys_reqs dclk drst) sv) in *.
  assert (S : subl (map c_pin (port_constraints (concat (map (fun l => used_ioports v (lv_port l))
                (filter (fun l => negb (path_mem (pt_path (lv_port l)) unused)) (gleaves (granted outs))
                 ++ concat (map leaves sv)))))) (map fst (phys_reqd st))).
  { rewrite P, gpins_gleaves. apply used_pins_subl; [|apply (granted_ok_wf t cm); exact G].
    unfold g, gleaves. rewrite map_app, concat_app. fold (gleaves (granted outs)).
    fold (gleaves (combine (sys_reqs dclk drst) sv)). rewrite gleaves_combine by exact Hl.
    apply subl_app; [apply subl_filter|apply subl_refl]. }
  assert (E : map c_pin (pl_constraints (mkPlan
                (if vendor_attrs v then port_constraints (concat (map (fun l => used_ioports v (lv_port l))
                   (filter (fun l => negb (path_mem (pt_path (lv_port l)) unused)) (gleaves (granted outs)) ++ concat (map leaves sv))))
                 else map strip_attrs (port_constraints (concat (map (fun l => used_ioports v (lv_port l))
                   (filter (fun l => negb (path_mem (pt_path (lv_port l)) unused)) (gleaves (granted outs)) ++ concat (map leaves sv))))))
                (if vendor_clocks v then clock_constraints st else [])))
              = map c_pin (port_constraints (concat (map (fun l => used_ioports v (lv_port l))
                   (filter (fun l => negb (path_mem (pt_path (lv_port l)) unused)) (gleaves (granted outs)) ++ concat (map leaves sv)))))).
  { cbn [pl_constraints]. destruct (vendor_attrs v); [reflexivity|]. rewrite map_map. reflexivity. }
  unfold gleaves in E, S. rewrite E. split; [exact S|]. split.
  - eapply subl_NoDup; [exact S|]. rewrite P. exact N.
  - reflexivity.
Qed.

(* ResP.v — lemmas about Model/Res.v (C19). *)
From Coq Require Import ZArith List Bool Lia.
From V.Model Require Import Res.
Import ListNotations.
Open Scope Z_scope.

(* ================================================================= A. connector resolution *)
Lemma ckey_eqb_eq a b : ckey_eqb a b = true <-> a = b.
Proof.
  destruct a as [a1 a2], b as [b1 b2]; unfold ckey_eqb; cbn [fst snd].
  rewrite andb_true_iff, !Z.eqb_eq. split; [intros [-> ->]; reflexivity|intros H; inversion H; auto].
Qed.
Lemma ckey_eqb_refl a : ckey_eqb a a = true.
Proof. apply ckey_eqb_eq; reflexivity. Qed.
Lemma ckey_eqb_neq a b : a <> b -> ckey_eqb a b = false.
Proof. intros H; destruct (ckey_eqb a b) eqn:E; auto. apply ckey_eqb_eq in E; contradiction. Qed.

(* the chain of connector references from a name to a platform pin *)
Inductive chain (cm : connmap) : pname -> Z -> Prop :=
| chain_plat p : chain cm (Plat p) p
| chain_step c k n' p : cm_lookup cm (c, k) = Some n' -> chain cm n' p -> chain cm (CPin c k) p.

Lemma resolve_name_chain cm : forall fuel n p, resolve_name fuel cm n = MOk p -> chain cm n p.
Proof.
  induction fuel as [|f IH]; intros n p H; destruct n as [q|c k]; cbn in H.
  - inversion H; constructor.
  - discriminate.
  - inversion H; constructor.
  - destruct (cm_lookup cm (c, k)) eqn:E; [|discriminate]. econstructor; eauto.
Qed.

Lemma chain_resolve_name cm n p : chain cm n p -> exists f, forall fuel, (f <= fuel)%nat -> resolve_name fuel cm n = MOk p.
Proof.
  induction 1 as [q|c k n' p E _ [f IH]].
  - exists O; intros [|fuel] _; reflexivity.
  - exists (S f); intros [|fuel] Hf; [lia|]. cbn. rewrite E. apply IH; lia.
Qed.

(* a result other than "does not terminate" is independent of the fuel *)
Lemma resolve_name_fuel_mono cm : forall fuel n r, resolve_name fuel cm n = r -> r <> MLoop ->
  forall k, resolve_name (fuel + k) cm n = r.
Proof.
  induction fuel as [|f IH]; intros n r H Hr k; destruct n as [q|c q]; cbn in H.
  - destruct (0 + k)%nat; exact H.
  - congruence.
  - exact H.
  - cbn. destruct (cm_lookup cm (c, q)); auto.
Qed.

(* acyclic table: connector references strictly decrease some rank *)
Definition acyclic (cm : connmap) : Prop :=
  exists rank : ckey -> nat, forall k c' k', cm_lookup cm k = Some (CPin c' k') -> (rank (c', k') < rank k)%nat.
(* every referenced connector pin exists *)
Definition closed (cm : connmap) : Prop :=
  forall k c' k', cm_lookup cm k = Some (CPin c' k') -> cm_lookup cm (c', k') <> None.
Definition present (cm : connmap) (n : pname) : Prop :=
  match n with Plat _ => True | CPin c k => cm_lookup cm (c, k) <> None end.

Definition cm_remove (k : ckey) (cm : connmap) : connmap := filter (fun e => negb (ckey_eqb (fst e) k)) cm.

Lemma cm_lookup_remove_other k k2 : k2 <> k -> forall cm, cm_lookup (cm_remove k cm) k2 = cm_lookup cm k2.
Proof.
  intros Hne; induction cm as [|[k' v] r IH]; cbn; [reflexivity|].
  destruct (ckey_eqb k' k) eqn:E; cbn.
  - apply ckey_eqb_eq in E; subst k'. rewrite (ckey_eqb_neq k k2) by congruence. exact IH.
  - destruct (ckey_eqb k' k2); auto.
Qed.
Lemma cm_remove_length k : forall cm, (length (cm_remove k cm) <= length cm)%nat.
Proof. unfold cm_remove. induction cm as [|[k' v] r IH]; cbn; [lia|]. destruct (negb (ckey_eqb k' k)); cbn; lia. Qed.
Lemma cm_remove_length_lt k : forall cm v, cm_lookup cm k = Some v -> (length (cm_remove k cm) < length cm)%nat.
Proof.
  induction cm as [|[k' v'] r IH]; cbn; intros v H; [discriminate|].
  destruct (ckey_eqb k' k) eqn:E; cbn.
  - pose proof (cm_remove_length k r). unfold cm_remove in *. lia.
  - specialize (IH _ H). unfold cm_remove in *. lia.
Qed.

Definition below (rank : ckey -> nat) (n : pname) (k : ckey) : Prop :=
  match n with Plat _ => True | CPin c q => (rank (c, q) < rank k)%nat end.

Lemma resolve_remove cm rank key :
  (forall k c' k', cm_lookup cm k = Some (CPin c' k') -> (rank (c', k') < rank k)%nat) ->
  forall fuel n, below rank n key -> resolve_name fuel cm n = resolve_name fuel (cm_remove key cm) n.
Proof.
  intros Hr; induction fuel as [|f IH]; intros n Hb; destruct n as [q|c q]; cbn; auto.
  cbn in Hb. assert (Hne : (c, q) <> key) by (intros E0; rewrite E0 in Hb; lia).
  rewrite (cm_lookup_remove_other key (c, q) Hne).
  destruct (cm_lookup cm (c, q)) as [n'|] eqn:E; auto.
  apply IH. destruct n' as [|c' k']; cbn; auto. specialize (Hr _ _ _ E). lia.
Qed.

Lemma resolve_name_S f cm c k : resolve_name (S f) cm (CPin c k) =
  match cm_lookup cm (c, k) with None => MMissing | Some n' => resolve_name f cm n' end.
Proof. reflexivity. Qed.

Lemma resolve_noloop_len : forall len cm rank, (length cm <= len)%nat ->
  (forall k c' k', cm_lookup cm k = Some (CPin c' k') -> (rank (c', k') < rank k)%nat) ->
  forall n, resolve_name (S len) cm n <> MLoop.
Proof.
  induction len as [|len IH]; intros cm rank Hlen Hr n; destruct n as [q|c q]; try (cbn; discriminate);
    rewrite resolve_name_S.
  - destruct cm; [cbn; discriminate|cbn in Hlen; lia].
  - destruct (cm_lookup cm (c, q)) as [n'|] eqn:E; [|discriminate].
    assert (Hb : below rank n' (c, q)) by (destruct n' as [|c' k']; cbn; auto; exact (Hr _ _ _ E)).
    rewrite (resolve_remove cm rank (c, q) Hr (S len) n' Hb).
    apply (IH (cm_remove (c, q) cm) rank).
    + pose proof (cm_remove_length_lt (c, q) cm n' E). lia.
    + intros k c' k' Hl.
      destruct (ckey_eqb k (c, q)) eqn:Ek.
      * apply ckey_eqb_eq in Ek; subst k. exfalso. clear - Hl.
        induction cm as [|[k2 v] r IHr]; cbn in Hl; [discriminate|].
        destruct (ckey_eqb k2 (c, q)) eqn:E2; cbn in Hl; auto.
        rewrite E2 in Hl. auto.
      * rewrite cm_lookup_remove_other in Hl; [eauto|]. intros ->. rewrite ckey_eqb_refl in Ek; discriminate.
Qed.

Lemma resolve_acyclic_noloop cm n : acyclic cm -> resolve_name (cm_fuel cm) cm n <> MLoop.
Proof. intros [rank Hr]. apply (resolve_noloop_len (length cm) cm rank); auto. Qed.

Lemma resolve_closed_found cm : closed cm -> forall fuel n, present cm n -> resolve_name fuel cm n <> MMissing.
Proof.
  intros Hc; induction fuel as [|f IH]; intros n Hp; destruct n as [q|c q]; cbn; try discriminate.
  cbn in Hp. destruct (cm_lookup cm (c, q)) as [n'|] eqn:E; [|congruence].
  apply IH. destruct n' as [|c' k']; cbn; auto. eapply Hc; eauto.
Qed.

Lemma map_names_chain cm n : acyclic cm ->
  (resolve_name (cm_fuel cm) cm n = MMissing \/ exists p, resolve_name (cm_fuel cm) cm n = MOk p /\ chain cm n p)
  /\ (closed cm -> present cm n -> exists p, resolve_name (cm_fuel cm) cm n = MOk p /\ chain cm n p).
Proof.
  intros Ha. pose proof (resolve_acyclic_noloop cm n Ha) as Hl.
  destruct (resolve_name (cm_fuel cm) cm n) as [p| |] eqn:E; [| |congruence].
  - split; [right|intros _ _]; exists p; split; auto; eapply resolve_name_chain; eauto.
  - split; [left; reflexivity|]. intros Hc Hp. exfalso. eapply resolve_closed_found; eauto.
Qed.

Definition cyc_cm : connmap := [((0, 1), CPin 1 1); ((1, 1), CPin 0 1)].
Lemma cyclic_loops : forall fuel, resolve_name fuel cyc_cm (CPin 0 1) = MLoop /\ resolve_name fuel cyc_cm (CPin 1 1) = MLoop.
Proof. induction fuel as [|f [IH1 IH2]]; split; cbn; auto. Qed.

Lemma map_names_Forall2 fuel cm : forall ns l, map_names fuel cm ns = LOk l ->
  Forall2 (fun n p => resolve_name fuel cm n = MOk p) ns l.
Proof.
  induction ns as [|n r IH]; intros l H; cbn in H.
  - inversion H; constructor.
  - destruct (resolve_name fuel cm n) eqn:E; try discriminate.
    destruct (map_names fuel cm r) eqn:E2; try discriminate. inversion H; subst. constructor; auto.
Qed.

Lemma Forall2_nth_error {A B} (R : A -> B -> Prop) : forall la lb, Forall2 R la lb ->
  length la = length lb /\ forall k a, nth_error la k = Some a -> exists b, nth_error lb k = Some b /\ R a b.
Proof.
  induction 1 as [|a b la lb Hab _ [IHl IH]]; split; cbn; auto.
  - intros [|k] a H; discriminate.
  - intros [|k] a' H; cbn in *; [inversion H; subst; eauto|eauto].
Qed.

(* GenEqNir.v — the definitions regenerated from /repo/amaranth/hdl/_nir.py (Gen/NirGen.v, translator unit "nir")
   equal the hand-written model Model/Nir.v:
     class Net (over Z)                      vs  the abstract nets NC / NL          (through the encoding `enc`)
     <Cell subclass>.comb_edges_to           vs  Nir.comb_edges                      (gen_comb_edges_to_eq)
     <Cell subclass>.comb_edges_is_per_bit   vs  Nir.per_bit                         (gen_comb_edges_is_per_bit_eq)
     <Cell subclass>.output_nets             vs  Nir.outputs                         (gen_output_nets_eq)
     Netlist.check_comb_cycles / traverse    vs  Nir.check_cycles / Nir.traverse     (gen_check_comb_cycles_eq)
   A Python cell is given by the typed fields of its __init__ (G.pycell); `alpha` maps it to the model's cell. *)
From Coq Require Import String ZArith List Bool Arith Lia.
From V.Model Require Import Nir.
From V.Proofs Require Import BitsP NirP.
From V.Gen Require NirGen.
Import ListNotations.
Module G := NirGen.
Open Scope Z_scope.

(* ------------------------------------------------------------------------------------------------ *)
(* the abstraction Python cell -> model cell                                                        *)
(* ------------------------------------------------------------------------------------------------ *)
Definition opk_of_string (s : string) : opk :=
  if String.eqb s "~"%string then KNot else if String.eqb s "&"%string then KAnd else if String.eqb s "|"%string then KOr
  else if String.eqb s "^"%string then KXor else if String.eqb s "m"%string then KMux else KOther.

Definition nat_range (p : string * (Z * Z)) : nat * nat := (Z.to_nat (fst (snd p)), Z.to_nat (snd (snd p))).
Definition asg (a : G.Assignment) : net * nat * list net :=
  (G.Assignment_cond a, Z.to_nat (G.Assignment_start a), G.Assignment_value a).

Definition alpha (c : G.pycell) : cell :=
  match c with
  | G.PTop ports_i => CTop (map nat_range ports_i)
  | G.POperator op ins =>
      COperator (opk_of_string op) (match G.Operator_width op ins with G.Ok w => Z.to_nat w | _ => O end) ins
  | G.PPart value offset width _ => CPart (Z.to_nat width) value offset
  | G.PMatch en value patterns => CMatch (length patterns) en value
  | G.PAssignmentList default assignments => CAssign default (map asg assignments)
  | G.PFlipFlop data _ clk arst => CFlipFlop (length data) clk arst
  | G.PAsyncReadPort width addr => CAsyncRead (Z.to_nat width) addr
  | G.PSyncReadPort width _ _ _ => CSyncRead (Z.to_nat width)
  | G.PInitial => CInitial
  | G.PAnyValue width => CAnyValue (Z.to_nat width)
  | G.PInstance ports_o => CInstance (map nat_range ports_o)
  | G.PIOBuffer port dir o oe =>
      CIOB (G.iodir_eqb dir G.IO_Input) (G.iodir_eqb dir G.IO_Output) (length port) o oe
  | G.PMemory | G.PSyncWritePort _ _ _ _ | G.PAsyncPrint _ | G.PSyncPrint _ _
  | G.PAsyncProperty _ _ | G.PSyncProperty _ _ _ => CNoOut
  end.

(* GUARD.  What the real netlist builder guarantees and the comparison needs:
   - port / assignment start positions are non-negative (Net.from_cell asserts `bit in range(1 << 16)`;
     Assignment.start is an offset computed by emit_assign from slice bounds), so that Z.to_nat loses nothing;
   - an Operator has at most three inputs (emit_operator builds 1, 2 or 3).  With four or more the Python code
     takes the Mux branch while the model has no edges. *)
Definition py_ok (c : G.pycell) : Prop :=
  match c with
  | G.PTop ports_i => Forall (fun p => 0 <= fst (snd p)) ports_i
  | G.PInstance ports_o => Forall (fun p => 0 <= fst (snd p)) ports_o
  | G.PAssignmentList _ assignments => Forall (fun a => 0 <= G.Assignment_start a) assignments
  | G.POperator _ ins => (length ins <= 3)%nat
  | _ => True
  end.

(* the classes that define comb_edges_to / comb_edges_is_per_bit (the others inherit `raise NotImplementedError`;
   they have no outputs, so the cycle search never asks them) *)
Definition has_edges (c : G.pycell) : bool :=
  match c with
  | G.PMemory | G.PSyncWritePort _ _ _ _ | G.PAsyncPrint _ | G.PSyncPrint _ _
  | G.PAsyncProperty _ _ | G.PSyncProperty _ _ _ => false
  | _ => true
  end.

Definition lenb {A} (i : nat) (l : list A) : bool := (i <? length l)%nat.

(* when comb_edges_to(bit) raises nothing (IndexError of `value[bit]`, the `assert self.operator == "m"`) *)
Definition edges_defined (c : G.pycell) (bit : nat) : bool :=
  match c with
  | G.POperator op ins =>
      match ins with
      | [a] => if String.eqb op "~"%string then lenb bit a else true
      | [a; b] => if String.eqb op "&"%string || String.eqb op "|"%string || String.eqb op "^"%string then lenb bit a && lenb bit b
                  else true
      | [s; a; b] => String.eqb op "m"%string && lenb 0 s && lenb bit a && lenb bit b
      | _ => false
      end
  | G.PAssignmentList default _ => lenb bit default
  | G.PIOBuffer _ dir o _ => G.iodir_eqb dir G.IO_Input || lenb bit o
  | _ => has_edges c
  end.

(* ------------------------------------------------------------------------------------------------ *)
(* the Python primitives                                                                            *)
(* ------------------------------------------------------------------------------------------------ *)
Lemma py_index_nat {A} (l : list A) (i : nat) :
  G.py_index l (Z.of_nat i) = match nth_error l i with Some x => G.Ok x | None => G.Error end.
Proof.
  unfold G.py_index. destruct (Z.ltb_spec (Z.of_nat i) 0); [lia|].
  destruct (Z.ltb_spec (Z.of_nat i) 0); [lia|]. now rewrite Nat2Z.id.
Qed.

Lemma nth_l_lenb {A} (l : list A) i :
  match nth_error l i with Some x => nth_l l i = [x] /\ lenb i l = true | None => nth_l l i = [] /\ lenb i l = false end.
Proof.
  unfold nth_l, lenb. destruct (nth_error l i) eqn:E.
  - split; [reflexivity|]. apply Nat.ltb_lt. apply nth_error_Some. congruence.
  - split; [reflexivity|]. apply Nat.ltb_ge. now apply nth_error_None.
Qed.

(* a loop whose body only appends its element: `for net in value: yield net` *)
Lemma for_loop_yield_all {A} (body : A -> list A -> G.result (bool * list A)) :
  (forall x s, body x s = G.Ok (true, s ++ [x])) ->
  forall l s, G.for_loop l body s = G.Ok (s ++ l).
Proof.
  intros Hb. induction l as [|x l IH]; intros s; simpl.
  - now rewrite app_nil_r.
  - rewrite Hb, IH. now rewrite <- app_assoc.
Qed.

Lemma py_range_0 n : G.py_range 0 n = map Z.of_nat (seq 0 (Z.to_nat n)).
Proof. unfold G.py_range. rewrite Z.sub_0_r. apply map_ext. intros; lia. Qed.

Lemma map_mk_net idx l : map (fun b => G.mk_net (Z.of_nat idx) b) (map Z.of_nat l) = map (NC idx) l.
Proof. rewrite map_map. apply map_ext. intros b. unfold G.mk_net. now rewrite !Nat2Z.id. Qed.

Lemma outputs_range idx n :
  map (fun b => G.mk_net (Z.of_nat idx) b) (G.py_range 0 n) = map (NC idx) (seq 0 (Z.to_nat n)).
Proof. now rewrite py_range_0, map_mk_net. Qed.

(* ------------------------------------------------------------------------------------------------ *)
(* comb_edges_is_per_bit                                                                            *)
(* ------------------------------------------------------------------------------------------------ *)
Ltac str_cases op :=
  repeat match goal with
         | |- context [String.eqb op ?s] =>
             let E := fresh "E" in
             destruct (String.eqb op s) eqn:E;
             [apply String.eqb_eq in E; subst op; cbn | ]
         end.

Lemma gen_comb_edges_is_per_bit_eq c :
  G.cell_comb_edges_is_per_bit c = if has_edges c then G.Ok (per_bit (alpha c)) else G.Error.
Proof.
  destruct c; try reflexivity.
  - (* Operator *)
    match goal with |- context [G.POperator ?op ?ins] => rename op into operator, ins into inputs end.
    cbn [G.cell_comb_edges_is_per_bit alpha has_edges per_bit].
    unfold G.Operator_comb_edges_is_per_bit, opk_of_string, G.py_len.
    destruct inputs as [|a [|b [|s [|x r]]]].
    1-4: cbn [length Z.of_nat Z.eqb Pos.eqb Pos.of_succ_nat Pos.succ andb]; try reflexivity;
         str_cases operator; reflexivity.
    destruct (Z.eqb_spec (Z.of_nat (length (a :: b :: s :: x :: r))) 1) as [H|_]; [simpl in H; lia|].
    destruct (Z.eqb_spec (Z.of_nat (length (a :: b :: s :: x :: r))) 2) as [H|_]; [simpl in H; lia|].
    destruct (Z.eqb_spec (Z.of_nat (length (a :: b :: s :: x :: r))) 3) as [H|_]; [simpl in H; lia|].
    cbn. repeat match goal with |- context [if ?c then _ else _] => destruct c end; reflexivity.
Qed.

(* ------------------------------------------------------------------------------------------------ *)
(* comb_edges_to                                                                                    *)
(* ------------------------------------------------------------------------------------------------ *)
Arguments lenb : simpl never.
Arguments nth_l : simpl never.
Arguments G.py_index : simpl never.
Arguments G.for_loop : simpl never.
Lemma for_loop_nil {A S} (body : A -> S -> G.result (bool * S)) s : G.for_loop [] body s = G.Ok s.
Proof. reflexivity. Qed.
Lemma for_loop_cons {A S} x l (body : A -> S -> G.result (bool * S)) s :
  G.for_loop (x :: l) body s =
  match body x s with
  | G.Ok (true, s') => G.for_loop l body s'
  | G.Ok (false, s') => G.Ok s'
  | G.RaiseCycle p => G.RaiseCycle p
  | G.Error => G.Error
  | G.Fuel => G.Fuel
  end.
Proof. reflexivity. Qed.
Lemma py_index_hd {A} (x : A) l : G.py_index (x :: l) 0 = G.Ok x.
Proof. reflexivity. Qed.
Lemma py_index_1 {A} (x y : A) l : G.py_index (x :: y :: l) 1 = G.Ok y.
Proof. reflexivity. Qed.
Lemma py_index_2 {A} (x y z : A) l : G.py_index (x :: y :: z :: l) 2 = G.Ok z.
Proof. reflexivity. Qed.
Lemma py_index_nil {A} i : G.py_index (@nil A) (Z.of_nat i) = G.Error.
Proof. rewrite py_index_nat. now destruct i. Qed.

(* one subscript `value[bit]`: either the net at that position or IndexError *)
Ltac index_bit l i :=
  let H := fresh "H" in let H1 := fresh "H" in let H2 := fresh "H" in
  rewrite (py_index_nat l i); pose proof (nth_l_lenb l i) as H;
  destruct (nth_error l i); destruct H as [H1 H2]; rewrite ?H1, ?H2; clear H1 H2; cbn [G.bind].

Ltac gstep :=
  first [ rewrite py_index_hd | rewrite py_index_1 | rewrite py_index_2
        | rewrite for_loop_yield_all by reflexivity
        | match goal with |- context [G.py_index ?l (Z.of_nat ?i)] => index_bit l i end ];
  cbn [G.bind app].

Lemma assign_loop bit default asgs0 assignments out0 : Forall (fun a => 0 <= G.Assignment_start a) assignments ->
  forall out,
  G.for_loop assignments (G.AssignmentList_comb_edges_to_body1 default asgs0 (Z.of_nat bit) out0) out =
  G.Ok (out ++ flat_map (fun a : net * nat * list net =>
                           let '(cond, start, value) := a in
                           if ((start <=? bit)%nat && (bit <? start + length value)%nat)%bool
                           then cond :: nth_l value (bit - start) else []) (map asg assignments)).
Proof.
  induction 1 as [|a l Ha Hl IH]; intros out; cbn [map flat_map].
  - now rewrite for_loop_nil, app_nil_r.
  - rewrite for_loop_cons. unfold G.AssignmentList_comb_edges_to_body1 at 1. unfold G.py_len.
    destruct a as [cond start value]; cbn [G.Assignment_start G.Assignment_value G.Assignment_cond asg] in *.
    destruct (Z.leb_spec start (Z.of_nat bit)) as [L1|L1];
      destruct (Nat.leb_spec (Z.to_nat start) bit) as [L2|L2]; try lia; cbn [andb].
    + destruct (Z.ltb_spec (Z.of_nat bit) (start + Z.of_nat (length value))) as [L3|L3];
        destruct (Nat.ltb_spec bit (Z.to_nat start + length value)) as [L4|L4]; try lia.
      * replace (Z.of_nat bit - start) with (Z.of_nat (bit - Z.to_nat start)) by lia.
        rewrite py_index_nat. unfold nth_l.
        destruct (nth_error value (bit - Z.to_nat start)) eqn:E.
        -- cbn [G.bind]. rewrite IH. f_equal. now rewrite <- !app_assoc.
        -- apply nth_error_None in E. lia.
      * rewrite IH. reflexivity.
    + rewrite IH. reflexivity.
Qed.

Lemma gen_comb_edges_to_eq c bit : py_ok c ->
  G.cell_comb_edges_to c (Z.of_nat bit) =
  if edges_defined c bit then G.Ok (comb_edges (alpha c) bit) else G.Error.
Proof.
  intros OK. destruct c; try reflexivity.
  - (* Operator *)
    match goal with |- context [G.POperator ?op ?ins] => rename op into operator, ins into inputs end.
    cbn [G.cell_comb_edges_to alpha edges_defined comb_edges]. cbn in OK.
    unfold G.Operator_comb_edges_to, G.py_len.
    destruct inputs as [|a [|b [|s [|x r]]]]; [| | | |simpl in OK; lia];
      cbn [length Z.of_nat Z.eqb Pos.eqb Pos.of_succ_nat Pos.succ].
    + unfold opk_of_string. str_cases operator; try reflexivity.
    + unfold opk_of_string. str_cases operator; repeat gstep; reflexivity.
    + unfold opk_of_string. str_cases operator; cbn [orb bitwise2]; repeat gstep; try reflexivity.
      all: cbn [andb]; repeat gstep; reflexivity.
    + unfold opk_of_string. str_cases operator; cbn [andb]; try reflexivity.
      * gstep. change (G.py_index a 0) with (G.py_index a (Z.of_nat 0%nat)).
        index_bit a 0%nat; [|reflexivity]. cbn [andb]. repeat gstep; reflexivity.
  - (* Part *)
    cbn [G.cell_comb_edges_to alpha edges_defined has_edges comb_edges]. unfold G.Part_comb_edges_to.
    repeat gstep. reflexivity.
  - (* Match *)
    cbn [G.cell_comb_edges_to alpha edges_defined has_edges comb_edges]. unfold G.Match_comb_edges_to.
    repeat gstep. reflexivity.
  - (* AssignmentList *)
    cbn [G.cell_comb_edges_to alpha edges_defined comb_edges]. unfold G.AssignmentList_comb_edges_to.
    gstep; [|reflexivity]. rewrite assign_loop by exact OK. reflexivity.
  - (* AsyncReadPort *)
    cbn [G.cell_comb_edges_to alpha edges_defined has_edges comb_edges]. unfold G.AsyncReadPort_comb_edges_to.
    repeat gstep. reflexivity.
  - (* IOBuffer *)
    cbn [G.cell_comb_edges_to alpha edges_defined comb_edges]. unfold G.IOBuffer_comb_edges_to.
    match goal with |- context [G.iodir_eqb ?d _] => destruct d end; cbn [G.iodir_eqb negb orb]; try reflexivity.
    all: gstep; reflexivity.
Qed.

(* ------------------------------------------------------------------------------------------------ *)
(* output_nets                                                                                      *)
(* ------------------------------------------------------------------------------------------------ *)
Definition width_defined (c : G.pycell) : bool :=
  match c with
  | G.POperator op ins => match G.Operator_width op ins with G.Ok _ => true | _ => false end
  | _ => true
  end.

Lemma for_loop_flat {A B} (g : A -> list B) (body : A -> list B -> G.result (bool * list B)) :
  forall l, (forall x s, In x l -> body x s = G.Ok (true, s ++ g x)) ->
  forall s, G.for_loop l body s = G.Ok (s ++ flat_map g l).
Proof.
  induction l as [|x l IH]; intros Hb s.
  - now rewrite for_loop_nil, app_nil_r.
  - rewrite for_loop_cons, Hb by (now left). rewrite IH by (intros; apply Hb; now right).
    cbn [flat_map]. now rewrite app_assoc.
Qed.

Lemma flat_map_single {A B} (f : A -> B) l : flat_map (fun x => [f x]) l = map f l.
Proof. induction l; [reflexivity|]. cbn [flat_map map app]. now f_equal. Qed.

Lemma seq_add a n : seq a n = map (fun i => (a + i)%nat) (seq 0 n).
Proof.
  revert a. induction n as [|n IH]; intros a; [reflexivity|].
  cbn [seq map]. rewrite Nat.add_0_r. f_equal. rewrite <- (seq_shift n 0), map_map, (IH (S a)).
  apply map_ext. intros; lia.
Qed.

Lemma range_nets idx start width : 0 <= start ->
  map (fun b => G.mk_net (Z.of_nat idx) b) (G.py_range start (start + width)) =
  map (NC idx) (seq (Z.to_nat start) (Z.to_nat width)).
Proof.
  intros H. unfold G.py_range. replace (start + width - start) with width by lia.
  rewrite (seq_add (Z.to_nat start)), !map_map. apply map_ext. intros i.
  unfold G.mk_net. rewrite Nat2Z.id. f_equal. lia.
Qed.

Lemma ports_loop (body : Z * Z -> list net -> G.result (bool * list net)) idx :
  (forall start width s, body (start, width) s =
                         G.Ok (true, s ++ map (fun b => G.mk_net (Z.of_nat idx) b) (G.py_range start (start + width)))) ->
  forall ports : list (string * (Z * Z)), Forall (fun p => 0 <= fst (snd p)) ports ->
  forall s, G.for_loop (G.dict_values ports) body s = G.Ok (s ++ map (NC idx) (ranges (map nat_range ports))).
Proof.
  intros Hb. unfold G.dict_values. induction 1 as [|[name [start width]] ports Hp _ IH]; intros s; cbn [map snd].
  - now rewrite for_loop_nil, app_nil_r.
  - rewrite for_loop_cons, Hb. rewrite IH.
    cbn [ranges flat_map nat_range fst snd]. rewrite map_app, range_nets by exact Hp.
    unfold ranges. now rewrite app_assoc.
Qed.

Lemma operator_width_cases op ins :
  (exists w, G.Operator_width op ins = G.Ok w) \/ G.Operator_width op ins = G.Error.
Proof.
  unfold G.Operator_width. destruct ins as [|a [|b r]];
    repeat match goal with |- context [if ?c then _ else _] => destruct c end;
    try (right; reflexivity); left; eexists; reflexivity.
Qed.

Lemma gen_output_nets_eq c idx : py_ok c ->
  G.cell_output_nets c (Z.of_nat idx) = if width_defined c then G.Ok (outputs (alpha c) idx) else G.Error.
Proof.
  intros OK.
  destruct c; cbn [G.cell_output_nets alpha width_defined outputs]; try reflexivity.
  - (* Top *)
    unfold G.Top_output_nets. rewrite (ports_loop _ idx); [reflexivity| |exact OK].
    intros start width s. unfold G.Top_output_nets_body1.
    rewrite (for_loop_flat (fun b => [G.mk_net (Z.of_nat idx) b])) by reflexivity.
    cbn [G.bind]. now rewrite flat_map_single.
  - (* Operator *)
    unfold G.Operator_output_nets.
    match goal with |- context [G.Operator_width ?o ?i] => destruct (operator_width_cases o i) as [[w ->]| ->] end;
      [|reflexivity].
    cbn [G.bind]. now rewrite outputs_range.
  - unfold G.Part_output_nets. now rewrite outputs_range.
  - unfold G.Match_output_nets, G.py_len. now rewrite outputs_range, Nat2Z.id.
  - unfold G.AssignmentList_output_nets, G.py_len. now rewrite outputs_range, Nat2Z.id.
  - unfold G.FlipFlop_output_nets, G.py_len. now rewrite outputs_range, Nat2Z.id.
  - unfold G.AsyncReadPort_output_nets. now rewrite outputs_range.
  - unfold G.SyncReadPort_output_nets. now rewrite outputs_range.
  - unfold G.Initial_output_nets, G.mk_net. now rewrite Nat2Z.id.
  - unfold G.AnyValue_output_nets. now rewrite outputs_range.
  - (* Instance *)
    unfold G.Instance_output_nets. rewrite (ports_loop _ idx); [reflexivity| |exact OK].
    intros start width s. unfold G.Instance_output_nets_body1.
    rewrite (for_loop_flat (fun b => [G.mk_net (Z.of_nat idx) b])) by reflexivity.
    cbn [G.bind]. now rewrite flat_map_single.
  - (* IOBuffer *)
    unfold G.IOBuffer_output_nets, G.py_len.
    match goal with |- context [G.iodir_eqb ?d _] => destruct d end; cbn [G.iodir_eqb]; try reflexivity.
    all: now rewrite outputs_range, Nat2Z.id.
Qed.

(* ------------------------------------------------------------------------------------------------ *)
(* class Net over the raw integers  vs  the abstract nets                                           *)
(* ------------------------------------------------------------------------------------------------ *)
(* the encoding `(cell << 16) | bit` / negative = late (the harness decodes real nets the same way) *)
Definition enc (n : net) : Z :=
  match n with NC c b => Z.of_nat c * 65536 + Z.of_nat b | NL l => - Z.of_nat l end.
(* GUARD: a bit index fits 16 bits (asserted by Net.from_cell) and late nets are strictly negative
   (alloc_late_value counts down from -1) *)
Definition net_ok (n : net) : Prop :=
  match n with NC _ b => Z.of_nat b < 65536 | NL l => (1 <= l)%nat end.

Lemma gen_Net_is_const_eq n : net_ok n -> G.Net_is_const (enc n) = G.Ok (is_const n).
Proof.
  intros H. unfold G.Net_is_const. f_equal. destruct n as [c b|l]; simpl in *.
  - destruct c as [|c].
    + destruct b as [|[|b]]; try reflexivity.
      destruct (Z.eqb_spec (Z.of_nat 0 * 65536 + Z.of_nat (S (S b))) 0); [lia|].
      destruct (Z.eqb_spec (Z.of_nat 0 * 65536 + Z.of_nat (S (S b))) 1); [lia|]. reflexivity.
    + destruct (Z.eqb_spec (Z.of_nat (S c) * 65536 + Z.of_nat b) 0); [lia|].
      destruct (Z.eqb_spec (Z.of_nat (S c) * 65536 + Z.of_nat b) 1); [lia|]. reflexivity.
  - destruct (Z.eqb_spec (- Z.of_nat l) 0); [lia|]. destruct (Z.eqb_spec (- Z.of_nat l) 1); [lia|]. reflexivity.
Qed.

Lemma gen_Net_is_late_eq n : net_ok n -> G.Net_is_late (enc n) = G.Ok (G.net_is_late n).
Proof.
  intros H. unfold G.Net_is_late. f_equal. destruct n as [c b|l]; simpl in *.
  - destruct (Z.ltb_spec (Z.of_nat c * 65536 + Z.of_nat b) 0); [lia|reflexivity].
  - destruct (Z.ltb_spec (- Z.of_nat l) 0); [reflexivity|lia].
Qed.

Lemma enc_const n : net_ok n -> is_const n = false -> match n with NC _ _ => 2 <= enc n | NL _ => enc n < 0 end.
Proof.
  destruct n as [c b|l]; simpl; intros H C; [|lia].
  destruct c as [|c]; [|lia]. apply Nat.ltb_ge in C. lia.
Qed.

Lemma gen_Net_cell_eq n : net_ok n -> G.Net_cell (enc n) = G.net_cell n.
Proof.
  intros H. unfold G.Net_cell, G.net_cell. destruct n as [c b|l].
  - destruct (is_const (NC c b)) eqn:C.
    + destruct c as [|c]; [|discriminate]. simpl in C. apply Nat.ltb_lt in C.
      destruct (Z.leb_spec 2 (enc (NC 0 b))); [simpl in *; lia|reflexivity].
    + pose proof (enc_const _ H C) as L; cbv beta iota in L. destruct (Z.leb_spec 2 (enc (NC c b))); [|lia].
      f_equal. simpl in *. rewrite Z.shiftr_div_pow2 by lia. change (2 ^ 16) with 65536.
      rewrite Z.div_add_l by lia. rewrite Z.div_small by lia. lia.
  - simpl in *. destruct (Z.leb_spec 2 (- Z.of_nat l)); [lia|reflexivity].
Qed.

Lemma gen_Net_bit_eq n : net_ok n -> G.Net_bit (enc n) = G.net_bit n.
Proof.
  intros H. unfold G.Net_bit, G.net_bit. destruct n as [c b|l].
  - destruct (is_const (NC c b)) eqn:C.
    + destruct c as [|c]; [|discriminate]. simpl in C. apply Nat.ltb_lt in C.
      destruct (Z.leb_spec 2 (enc (NC 0 b))); [simpl in *; lia|reflexivity].
    + pose proof (enc_const _ H C) as L; cbv beta iota in L. destruct (Z.leb_spec 2 (enc (NC c b))); [|lia].
      f_equal. simpl in *. change 65535 with (Z.ones 16). rewrite Z.land_ones by lia. change (2 ^ 16) with 65536.
      rewrite Z.add_comm, Z.mod_add by lia. apply Z.mod_small. lia.
  - simpl in *. destruct (Z.leb_spec 2 (- Z.of_nat l)); [lia|reflexivity].
Qed.

(* Net.from_cell: exactly its three assertions, then the encoding of the abstract net *)
Lemma gen_Net_from_cell_eq c b :
  G.Net_from_cell (Z.of_nat c) (Z.of_nat b) =
  if ((Z.of_nat b <? 65536) && (negb (c =? 0)%nat || (2 <=? b)%nat))%bool
  then G.Ok (enc (G.mk_net (Z.of_nat c) (Z.of_nat b))) else G.Error.
Proof.
  unfold G.Net_from_cell, G.Net_from_cell_k1, G.mk_net. rewrite !Nat2Z.id. change (Z.shiftl 1 16) with 65536.
  destruct (Z.leb_spec 0 (Z.of_nat b)); [|lia]. destruct (Z.leb_spec 0 (Z.of_nat c)); [|lia].
  destruct (Z.ltb_spec (Z.of_nat b) 65536); cbn [andb]; [|reflexivity].
  assert (Z.lor (Z.shiftl (Z.of_nat c) 16) (Z.of_nat b) = enc (NC c b)) as E.
  { rewrite Z.lor_comm, lor_shiftl_add by (change (2 ^ 16) with 65536; lia). change (2 ^ 16) with 65536. simpl. lia. }
  destruct (Z.eqb_spec (Z.of_nat c) 0); destruct (Nat.eqb_spec c 0); try lia; cbn [negb orb].
  - destruct (Z.leb_spec 2 (Z.of_nat b)); destruct (Nat.leb_spec 2 b); try lia; [now rewrite E|reflexivity].
  - now rewrite E.
Qed.

(* ------------------------------------------------------------------------------------------------ *)
(* Netlist.check_comb_cycles                                                                        *)
(* ------------------------------------------------------------------------------------------------ *)
(* Python sets are translated as lists in insertion order (s.add appends); the model conses.  The search
   only asks membership, so the two are related up to membership. *)
Definition seteq (a b : list net) : Prop := forall x, In x a <-> In x b.

Lemma seteq_nmem a b x : seteq a b -> nmem x a = nmem x b.
Proof.
  intros H. destruct (nmem x b) eqn:E.
  - apply nmem_In. apply H. now apply nmem_In.
  - apply nmem_false. intros Hx. apply H in Hx. apply nmem_In in Hx. congruence.
Qed.

Definition cyc_of (c : option G.Cycle) : option cyc :=
  match c with Some c => Some (G.Cycle_start c, G.Cycle_path c) | None => None end.

(* a run of the translated search is related to a run of the model: either the Python run dies with an
   exception other than CombinationalCycle (Error), or both end the same way in related states *)
Definition sim (r : G.result (list net * list net * option G.Cycle)) (t : tres) : Prop :=
  r = G.Error \/
  match r, t with
  | G.Ok (ck, bs, cy), TOk st cy' => seteq ck (checked st) /\ seteq bs (busy st) /\ cyc_of cy = cy'
  | G.RaiseCycle p, TRaise p' => p = p'
  | G.Fuel, TFuel => True
  | _, _ => False
  end.

Definition finish (n : net) (ex : list net) (st2 : dfs) : dfs :=
  Dfs (rev ex ++ n :: checked st2) (fold_left (fun b e => remove_net e b) ex (remove_net n (busy st2))).

Section Dfs.
Variable cells : list G.pycell.
Variable conn : list (nat * net).
Variable signals : list (Z * list net).
Hypothesis cells_ok : Forall py_ok cells.
Let g : netlist := Netlist (map alpha cells) conn (map snd signals).
Let pconn : list (net * net) := map (fun p => (NL (fst p), snd p)) conn.

Lemma cleanup_loop trav n ck0 bs0 cy ex0 : forall ex ck bs,
  G.for_loop ex (G.traverse_body3 trav cells pconn signals n ck0 bs0 cy ex0) (ck, bs) = G.Error \/
  G.for_loop ex (G.traverse_body3 trav cells pconn signals n ck0 bs0 cy ex0) (ck, bs) =
    G.Ok (ck ++ ex, fold_left (fun b e => remove_net e b) ex bs).
Proof.
  induction ex as [|e ex IH]; intros ck bs.
  - right. now rewrite for_loop_nil, app_nil_r.
  - rewrite for_loop_cons. unfold G.traverse_body3 at 1 3. unfold G.set_remove, G.set_add.
    destruct (nmem e bs); cbn [G.bind]; [|now left].
    destruct (IH (ck ++ [e]) (remove_net e bs)) as [E|E]; rewrite E; [now left|right].
    cbn [fold_left]. now rewrite <- app_assoc.
Qed.

Lemma k2_sim trav n ck bs cy ex st2 :
  seteq ck (checked st2) -> seteq bs (busy st2) ->
  sim (G.traverse_k2 trav cells pconn signals n ck bs cy ex) (TOk (finish n ex st2) (cyc_of cy)).
Proof.
  intros Hc Hb. unfold G.traverse_k2, G.set_remove, G.set_add.
  destruct (nmem n bs); cbn [G.bind]; [|now left].
  destruct (cleanup_loop trav n (ck ++ [n]) (remove_net n bs) cy ex ex (ck ++ [n]) (remove_net n bs)) as [E|E];
    rewrite E; cbn [G.bind]; [now left|right].
  unfold finish; cbn [checked busy]. split; [|split; [|reflexivity]]; intros x.
  - rewrite !in_app_iff, <- in_rev. cbn [In]. rewrite (Hc x). tauto.
  - rewrite !fold_remove_In, !remove_net_In, (Hb x). tauto.
Qed.

Lemma k1_sim trav n ck bs cy ex st2 :
  seteq ck (checked st2) -> seteq bs (busy st2) ->
  sim (G.traverse_k1 trav cells pconn signals n ck bs cy ex)
      (match cyc_of cy with
       | Some (start, p) => if net_eqb start n || nmem start ex then TRaise p
                            else TOk (finish n ex st2) (cyc_of cy)
       | None => TOk (finish n ex st2) None
       end).
Proof.
  intros Hc Hb. unfold G.traverse_k1. destruct cy as [c|]; cbn [cyc_of].
  - destruct (net_eqb (G.Cycle_start c) n || nmem (G.Cycle_start c) ex).
    + right. reflexivity.
    + apply (k2_sim trav n ck bs (Some c) ex st2 Hc Hb).
  - apply (k2_sim trav n ck bs None ex st2 Hc Hb).
Qed.

(* the recursive calls made at fuel f are related to the model's *)
Definition trav_ok (f : nat) (trav : net -> list net -> list net -> G.result (list net * list net * option G.Cycle)) :=
  forall m ck bs st, seteq ck (checked st) -> seteq bs (busy st) -> sim (trav m ck bs) (traverse g f m st).

(* `for src, src_loc in cell.comb_edges_to(net.bit): cycle = traverse(src); if cycle is not None: ...; break` *)
Lemma loop_sim f trav n ck0 bs0 cy0 ex0 cell : trav_ok f trav ->
  forall es ck bs st, seteq ck (checked st) -> seteq bs (busy st) ->
  sim (G.for_loop es (G.traverse_body5 trav cells pconn signals n ck0 bs0 cy0 ex0 cell) (ck, bs, None))
      (trav_loop (traverse g f) n es st).
Proof.
  intros IH. induction es as [|src es IHes]; intros ck bs st Hc Hb.
  - right. rewrite for_loop_nil. cbn. auto.
  - rewrite for_loop_cons. unfold G.traverse_body5 at 1. cbn [trav_loop].
    destruct (IH src ck bs st Hc Hb) as [E|S]; [rewrite E; now left|].
    destruct (trav src ck bs) as [[[ck' bs'] cy']|p| |]; destruct (traverse g f src st) as [st' c'|p'|];
      cbn [G.bind] in *; try contradiction.
    + destruct S as (Hc' & Hb' & <-). destruct cy' as [c|]; cbn [cyc_of].
      * right. cbn. auto.
      * apply IHes; assumption.
    + right. exact S.
    + right. exact I.
Qed.

Lemma bind_sim r t (k : list net * list net * option G.Cycle -> G.result (list net * list net * option G.Cycle))
      (K : dfs -> option cyc -> tres) T :
  T = match t with TOk st2 cy => K st2 cy | TRaise p => TRaise p | TFuel => TFuel end ->
  sim r t ->
  (forall ck bs cy st2, seteq ck (checked st2) -> seteq bs (busy st2) -> sim (k (ck, bs, cy)) (K st2 (cyc_of cy))) ->
  sim (G.bind r k) T.
Proof.
  intros -> [E|S] HK; [rewrite E; now left|].
  destruct r as [[[ck bs] cy]|p| |]; destruct t as [st2 c'|p'|]; cbn [G.bind] in *; try contradiction.
  - destruct S as (Hc & Hb & <-). now apply HK.
  - right. exact S.
  - right. exact I.
Qed.

Lemma dict_get_conn l :
  G.dict_get net_eqb pconn (NL l) = match conn_of g l with c :: _ => G.Ok c | [] => G.Error end.
Proof.
  unfold G.dict_get, conn_of, pconn. cbn [Nir.conn g].
  induction conn as [|[l' c] r IH]; [reflexivity|].
  cbn [map find fst snd net_eqb]. destruct (Nat.eqb l' l); [reflexivity|exact IH].
Qed.

Lemma extras_loop trav n ck0 bs0 cy0 ex0 cell : forall ex bs,
  G.for_loop ex (G.traverse_body6 trav cells pconn signals n ck0 bs0 cy0 ex0 cell) bs = G.Error \/
  G.for_loop ex (G.traverse_body6 trav cells pconn signals n ck0 bs0 cy0 ex0 cell) bs = G.Ok (bs ++ ex).
Proof.
  induction ex as [|e ex IH]; intros bs.
  - right. now rewrite for_loop_nil, app_nil_r.
  - rewrite for_loop_cons. unfold G.traverse_body6 at 1 3. unfold G.set_add.
    destruct (negb (nmem e ck0)); [|now left].
    destruct (IH (bs ++ [e])) as [E|E]; rewrite E; [now left|right]. now rewrite <- app_assoc.
Qed.

Lemma nth_cells c : nth_error (Nir.cells g) c = option_map alpha (nth_error cells c).
Proof. cbn [Nir.cells g]. apply nth_error_map. Qed.

Lemma seteq_busy1 bs st n ex : seteq bs (busy st) -> seteq ((bs ++ [n]) ++ ex) (ex ++ n :: busy st).
Proof. intros H x. rewrite !in_app_iff. cbn [In]. rewrite (H x). tauto. Qed.

(* one frame of the search *)
Lemma traverse_sim : forall f n ck bs st, seteq ck (checked st) -> seteq bs (busy st) ->
  sim (G.traverse cells pconn signals f n ck bs) (traverse g f n st).
Proof.
  induction f as [|f IH]; intros n ck bs st Hc Hb; [right; exact I|].
  cbn [G.traverse traverse].
  rewrite (seteq_nmem _ _ n Hc), (seteq_nmem _ _ n Hb).
  destruct (nmem n (checked st)); [right; cbn; auto|].
  destruct (nmem n (busy st)); [right; cbn; auto|].
  unfold G.set_add.
  destruct (is_const n) eqn:Cn.
  { (* constant net *)
    unfold succs, extras. rewrite Cn. cbn [trav_loop app].
    apply (k1_sim _ n ck (bs ++ [n]) None [] (Dfs (checked st) (n :: busy st))); cbn [checked busy]; [exact Hc|].
    intros x. rewrite in_app_iff. cbn [In]. rewrite (Hb x). tauto. }
  destruct n as [c b|l]; cbn [G.net_is_late].
  - (* cell output *)
    unfold G.net_cell, G.net_bit. rewrite Cn. cbn [G.bind].
    unfold succs, extras. rewrite Cn, nth_cells.
    rewrite py_index_nat. destruct (nth_error cells c) as [cell|] eqn:Ec; cbn [option_map G.bind]; [|now left].
    assert (py_ok cell) as OKc.
    { eapply Forall_forall; [exact cells_ok|]. eapply nth_error_In; exact Ec. }
    rewrite gen_comb_edges_is_per_bit_eq. destruct (has_edges cell) eqn:He; cbn [G.bind]; [|now left].
    assert (forall bs1 ex,
      seteq bs1 (ex ++ NC c b :: busy st) ->
      sim (G.traverse_k4 (G.traverse cells pconn signals f) cells pconn signals (NC c b) ck bs1 None ex cell)
          (match trav_loop (traverse g f) (NC c b) (comb_edges (alpha cell) b) (Dfs (checked st) (ex ++ NC c b :: busy st)) with
           | TOk st2 cy =>
               match cy with
               | Some (start, p) => if net_eqb start (NC c b) || nmem start ex then TRaise p
                                    else TOk (finish (NC c b) ex st2) cy
               | None => TOk (finish (NC c b) ex st2) None
               end
           | r => r
           end)) as K4.
    { intros bs1 ex Hb1. unfold G.traverse_k4, G.net_bit. rewrite Cn. cbn [G.bind].
      rewrite gen_comb_edges_to_eq by exact OKc. destruct (edges_defined cell b); cbn [G.bind]; [|now left].
      match goal with |- sim (G.bind ?r ?k) (match ?t with TOk _ _ => _ | _ => _ end) =>
        apply (bind_sim r t k (fun st2 cy => match cy with
               | Some (start, p) => if net_eqb start (NC c b) || nmem start ex then TRaise p
                                    else TOk (finish (NC c b) ex st2) cy
               | None => TOk (finish (NC c b) ex st2) None end)); [destruct t; reflexivity| |] end.
      - apply loop_sim; [exact IH|exact Hc|exact Hb1].
      - intros ck2 bs2 cy2 st2 Hc2 Hb2.
        pose proof (k1_sim (G.traverse cells pconn signals f) (NC c b) ck2 bs2 cy2 ex st2 Hc2 Hb2) as S.
        destruct cy2 as [c2|]; exact S. }
    destruct (per_bit (alpha cell)); cbn [negb].
    + apply K4. intros x. rewrite in_app_iff. cbn [In app]. rewrite (Hb x). tauto.
    + rewrite gen_output_nets_eq by exact OKc. destruct (width_defined cell); cbn [G.bind]; [|now left].
      match goal with |- context [G.for_loop ?ex (G.traverse_body6 ?t _ _ _ ?n ?a ?b0 ?cy ?e0 ?cl) ?s] =>
        destruct (extras_loop t n a b0 cy e0 cl ex s) as [E|E]; rewrite E; cbn [G.bind]; [now left|] end.
      apply K4. apply seteq_busy1. exact Hb.
  - (* late net *)
    unfold succs, extras. rewrite Cn. rewrite dict_get_conn.
    destruct (conn_of g l) as [|src rest] eqn:El; cbn [G.bind]; [now left|].
    assert (rest = []) as -> by (unfold conn_of in El; destruct (find _ _); congruence).
    cbn [trav_loop app].
    assert (seteq (bs ++ [NL l]) (busy (Dfs (checked st) (NL l :: busy st)))) as Hb1.
    { intros x. rewrite in_app_iff. cbn [In busy]. rewrite (Hb x). tauto. }
    destruct (IH src ck (bs ++ [NL l]) (Dfs (checked st) (NL l :: busy st)) Hc Hb1) as [E|S]; [rewrite E; now left|].
    destruct (G.traverse cells pconn signals f src ck (bs ++ [NL l])) as [[[ck' bs'] cy']|p| |];
      destruct (traverse g f src (Dfs (checked st) (NL l :: busy st))) as [st' c'|p'|];
      cbn [G.bind] in *; try contradiction.
    + destruct S as (Hc' & Hb' & <-). destruct cy' as [cy|]; cbn [cyc_of].
      * apply (k1_sim _ (NL l) ck' bs' (Some (G.mkCycle (G.Cycle_start cy) (G.Cycle_path cy ++ [NL l]))) [] st' Hc' Hb').
      * apply (k1_sim _ (NL l) ck' bs' None [] st' Hc' Hb').
    + right. exact S.
    + right. exact I.
Qed.

(* ---- the root loops ---- *)
Variable fuel : nat.

(* a loop over root nets `ns` started in related states: how it ends determines the model's top_loop on ns *)
Definition top_rel (r : G.result (list net * list net)) (ns : list net) (st : dfs) : Prop :=
  match r with
  | G.Ok (ck', bs') =>
      exists st', seteq ck' (checked st') /\ seteq bs' (busy st') /\
                  forall rest, top_loop g fuel (ns ++ rest) st = top_loop g fuel rest st'
  | G.RaiseCycle p => forall rest, top_loop g fuel (ns ++ rest) st = VCycle p
  | G.Fuel => forall rest, top_loop g fuel (ns ++ rest) st = VFuel
  | G.Error => True
  end.

(* `for net in ...: assert traverse(net) is None` *)
Definition root_body (B : net -> list net * list net -> G.result (bool * (list net * list net))) : Prop :=
  forall net ck bs,
    B net (ck, bs) =
    G.bind (G.traverse cells pconn signals fuel net ck bs)
           (fun '(ck, bs, t) => if negb (G.is_some t) then G.Ok (true, (ck, bs)) else G.Error).

Lemma roots_loop B : root_body B ->
  forall ns ck bs st, seteq ck (checked st) -> seteq bs (busy st) ->
  top_rel (G.for_loop ns B (ck, bs)) ns st.
Proof.
  intros HB. induction ns as [|n ns IH]; intros ck bs st Hc Hb.
  - rewrite for_loop_nil. exists st. auto.
  - rewrite for_loop_cons, HB.
    destruct (traverse_sim fuel n ck bs st Hc Hb) as [E|S]; [rewrite E; exact I|].
    destruct (G.traverse cells pconn signals fuel n ck bs) as [[[ck' bs'] cy']|p| |] eqn:Eg;
      destruct (traverse g fuel n st) as [st' c'|p'|] eqn:Em; cbn [G.bind] in *; try contradiction.
    + destruct S as (Hc' & Hb' & <-). destruct cy' as [cy|]; cbn [G.is_some negb cyc_of] in *; [exact I|].
      specialize (IH ck' bs' st' Hc' Hb').
      destruct (G.for_loop ns B (ck', bs')) as [[ck2 bs2]|p| |]; cbn [top_rel] in *.
      * destruct IH as (st2 & H1 & H2 & H3). exists st2. split; [exact H1|split; [exact H2|]].
        intros rest. cbn [app top_loop]. rewrite Em. apply H3.
      * intros rest. cbn [app top_loop]. rewrite Em. apply IH.
      * exact I.
      * intros rest. cbn [app top_loop]. rewrite Em. apply IH.
    + subst p'. intros rest. cbn [app top_loop]. now rewrite Em.
    + intros rest. cbn [app top_loop]. now rewrite Em.
Qed.

(* a loop over containers of roots (`for cell...: for net in cell.output_nets(..)`, `for value in signals.values()`) *)
Lemma outer_loop {X} (xs : list X) (roots_of : X -> list net)
      (Bo : X -> list net * list net -> G.result (bool * (list net * list net))) :
  (forall x ck bs, In x xs ->
     Bo x (ck, bs) = G.Error \/
     exists B, root_body B /\
       Bo x (ck, bs) = G.bind (G.for_loop (roots_of x) B (ck, bs)) (fun '(ck, bs) => G.Ok (true, (ck, bs)))) ->
  forall ck bs st, seteq ck (checked st) -> seteq bs (busy st) ->
  top_rel (G.for_loop xs Bo (ck, bs)) (flat_map roots_of xs) st.
Proof.
  induction xs as [|x xs IH]; intros HBo ck bs st Hc Hb.
  - rewrite for_loop_nil. exists st. auto.
  - rewrite for_loop_cons. cbn [flat_map].
    destruct (HBo x ck bs (or_introl eq_refl)) as [E|(B & HB & E)]; rewrite E; [exact I|].
    pose proof (roots_loop B HB (roots_of x) ck bs st Hc Hb) as R.
    destruct (G.for_loop (roots_of x) B (ck, bs)) as [[ck1 bs1]|p| |]; cbn [G.bind top_rel] in *; try exact I.
    + destruct R as (st1 & Hc1 & Hb1 & H1).
      assert (forall x' ck bs, In x' xs -> Bo x' (ck, bs) = G.Error \/
               exists B, root_body B /\ Bo x' (ck, bs) =
                 G.bind (G.for_loop (roots_of x') B (ck, bs)) (fun '(ck, bs) => G.Ok (true, (ck, bs)))) as HBo'
        by (intros; apply HBo; now right).
      specialize (IH HBo' ck1 bs1 st1 Hc1 Hb1).
      destruct (G.for_loop xs Bo (ck1, bs1)) as [[ck2 bs2]|p| |]; cbn [top_rel] in *.
      * destruct IH as (st2 & H2a & H2b & H2). exists st2. split; [exact H2a|split; [exact H2b|]].
        intros rest. rewrite <- app_assoc, H1. apply H2.
      * intros rest. rewrite <- app_assoc, H1. apply IH.
      * exact I.
      * intros rest. rewrite <- app_assoc, H1. apply IH.
    + intros rest. rewrite <- app_assoc. apply R.
    + intros rest. rewrite <- app_assoc. apply R.
Qed.

Lemma enumerate_from {A} (l : list A) k :
  combine (map Z.of_nat (seq k (length l))) l =
  match l with [] => [] | x :: r => (Z.of_nat k, x) :: combine (map Z.of_nat (seq (S k) (length r))) r end.
Proof. destruct l; reflexivity. Qed.

Lemma cell_roots_enum : forall (cs : list G.pycell) k,
  flat_map (fun ic : Z * G.pycell => outputs (alpha (snd ic)) (Z.to_nat (fst ic)))
           (combine (map Z.of_nat (seq k (length cs))) cs) = cell_roots (map alpha cs) k.
Proof.
  induction cs as [|c cs IH]; intros k; [reflexivity|].
  cbn [length seq map combine flat_map cell_roots fst snd]. now rewrite Nat2Z.id, IH.
Qed.

Lemma In_enum : forall (cs : list G.pycell) k i c,
  In (i, c) (combine (map Z.of_nat (seq k (length cs))) cs) -> (exists j, i = Z.of_nat j) /\ In c cs.
Proof.
  induction cs as [|c0 cs IH]; intros k i c H; [contradiction|].
  cbn [length seq map combine In] in H. destruct H as [H|H].
  - inversion H; subst. split; [now exists k|now left].
  - destruct (IH _ _ _ H) as [H1 H2]. split; [exact H1|now right].
Qed.

Definition result_of_verdict (v : verdict) : G.result unit :=
  match v with VAccept => G.Ok tt | VCycle p => G.RaiseCycle p | VAssert => G.Error | VFuel => G.Fuel end.

Lemma check_sim :
  G.check_comb_cycles cells pconn signals fuel = G.Error \/
  G.check_comb_cycles cells pconn signals fuel = result_of_verdict (top_loop g fuel (roots g) (Dfs [] [])).
Proof.
  unfold G.check_comb_cycles, roots.
  assert (seteq [] (checked (Dfs [] []))) as Hc0 by (intros x; tauto).
  assert (seteq [] (busy (Dfs [] []))) as Hb0 by (intros x; tauto).
  match goal with |- context [G.for_loop (G.py_enumerate cells) ?Bo _] =>
    pose proof (outer_loop (G.py_enumerate cells)
                  (fun ic => outputs (alpha (snd ic)) (Z.to_nat (fst ic))) Bo) as L1 end.
  unfold G.py_enumerate in *. rewrite cell_roots_enum in L1.
  lapply L1; [clear L1; intros L1|].
  2:{ intros [i c] ck bs Hin. destruct (In_enum _ _ _ _ Hin) as [[j ->] Hc].
      unfold G.check_comb_cycles_body1. rewrite gen_output_nets_eq
        by (eapply Forall_forall; [exact cells_ok|exact Hc]).
      destruct (width_defined c); cbn [G.bind]; [right|now left].
      eexists. split; [|cbn [fst snd]; rewrite Nat2Z.id; reflexivity].
      intros net ck' bs'. reflexivity. }
  specialize (L1 [] [] (Dfs [] []) Hc0 Hb0).
  cbn [Nir.cells Nir.sigs g] in *.
  match type of L1 with top_rel ?r _ _ => destruct r as [[ck1 bs1]|p| |] end; cbn [G.bind top_rel] in *.
  - destruct L1 as (st1 & Hc1 & Hb1 & H1). rewrite H1.
    match goal with |- context [G.for_loop (G.dict_values signals) ?Bo _] =>
      pose proof (outer_loop (G.dict_values signals) (fun v => v) Bo) as L2 end.
    lapply L2; [clear L2; intros L2|].
    2:{ intros v ck bs _. right. unfold G.check_comb_cycles_body3. eexists. split; [|reflexivity].
        intros net ck' bs'. reflexivity. }
    specialize (L2 ck1 bs1 st1 Hc1 Hb1). unfold G.dict_values in *.
    rewrite flat_map_concat_map, map_id in L2.
    match type of L2 with top_rel ?r _ _ => destruct r as [[ck2 bs2]|p| |] end; cbn [G.bind top_rel] in *.
    + destruct L2 as (st2 & _ & _ & H2). right. specialize (H2 []). rewrite app_nil_r in H2. now rewrite H2.
    + right. specialize (L2 []). rewrite app_nil_r in L2. now rewrite L2.
    + now left.
    + right. specialize (L2 []). rewrite app_nil_r in L2. now rewrite L2.
  - right. now rewrite L1.
  - now left.
  - right. now rewrite L1.
Qed.

End Dfs.

(* Netlist.check_comb_cycles as regenerated from the source, run on any Python netlist (cells given by their
   typed fields, connections, signals) with the model's fuel: it either dies with an exception other than
   CombinationalCycle (IndexError / KeyError / AssertionError / NotImplementedError — `Error`), or it ends exactly
   as the model's check_cycles on the abstracted netlist: returns (VAccept) / raises CombinationalCycle with the
   same path (VCycle) / runs out of fuel (VFuel; excluded by C06_dfs_fuel).  (The model's VAssert is the failing
   `assert traverse(net) is None`, an Error of the translated code; the model never produces it: C06_dfs_no_assert.) *)
Theorem gen_check_comb_cycles_eq cells conn signals : Forall py_ok cells ->
  let g := Netlist (map alpha cells) conn (map snd signals) in
  let r := G.check_comb_cycles cells (map (fun p => (NL (fst p), snd p)) conn) signals (S (length (all_nets g))) in
  r = G.Error \/ r = result_of_verdict (check_cycles g).
Proof. intros OK g r. exact (check_sim cells conn signals OK (S (length (all_nets g)))). Qed.

(* ---- the translated code run on concrete Python netlists (the Error alternative is not taken) ---- *)
Definition py_shift : list G.pycell := [G.PTop [("i"%string, (2, 1))]; G.POperator "~" [[NL 3; NL 2]]].
Definition py_shift_word : list G.pycell := [G.PTop [("i"%string, (2, 1))]; G.POperator "-" [[NL 3; NL 2]]].
Definition py_sibling : list G.pycell := [G.PTop []; G.POperator "+" [[NL 1; NC 0 0]; [NC 0 1; NC 0 0]]].
Definition py_mux : list G.pycell :=
  [G.PTop [("s"%string, (2, 1))]; G.POperator "m" [[NC 0 2]; [NL 1; NL 2]; [NL 2; NC 0 0]];
   G.PAssignmentList [NC 1 0; NC 1 1] [G.mkAssignment (NC 0 2) 1 [NC 0 1]]].
Definition conn3 : list (nat * net) := [(3, NC 0 2); (2, NC 1 0); (1, NC 1 1)]%nat.
Definition conn2 : list (nat * net) := [(2, NC 1 0); (1, NC 1 1)]%nat.
Definition conn_mux : list (nat * net) := [(1, NC 2 0); (2, NC 2 1)]%nat.
Definition pyc (conn : list (nat * net)) := map (fun p : nat * net => (NL (fst p), snd p)) conn.

Example gen_check_examples :
  (* s[1:3] = ~s[0:2] : accepted (per-bit) *)
  G.check_comb_cycles py_shift (pyc conn3) [(0, [NL 3; NL 2; NL 1])] 20 = G.Ok tt
  /\ map alpha py_shift = [CTop [(2, 1)%nat]; COperator KNot 2 [[NL 3; NL 2]]]
  (* the same wiring through a word-level operator: CombinationalCycle with the model's path *)
  /\ G.check_comb_cycles py_shift_word (pyc conn3) [(0, [NL 3; NL 2; NL 1])] 20 = G.RaiseCycle [NL 2; NC 1 0]
  /\ check_cycles (Netlist (map alpha py_shift_word) conn3 [[NL 3; NL 2; NL 1]]) = VCycle [NL 2; NC 1 0]
  (* a = a[1] + 1: the cycle closes on a sibling output (the `cycle.start in extra_nets` fix) *)
  /\ G.check_comb_cycles py_sibling (pyc conn2) [(0, [NL 2; NL 1])] 20 = G.RaiseCycle [NL 1; NC 1 0]
  /\ check_cycles (Netlist (map alpha py_sibling) conn2 [[NL 2; NL 1]]) = VCycle [NL 1; NC 1 0]
  (* a Mux whose data input is driven, through an AssignmentList, by its own output *)
  /\ G.check_comb_cycles py_mux (pyc conn_mux) [(0, [NL 1])] 20 = G.RaiseCycle [NC 2 0; NL 1; NC 1 0]
  /\ check_cycles (Netlist (map alpha py_mux) conn_mux [[NL 1]]) = VCycle [NC 2 0; NL 1; NC 1 0]
  (* exceptions other than CombinationalCycle: a late net without a connection (KeyError) *)
  /\ G.check_comb_cycles py_shift (pyc conn2) [(0, [NL 3])] 20 = G.Error.
Proof. vm_compute. repeat split. Qed.

Lemma py_examples_ok :
  Forall py_ok py_mux /\ Forall py_ok py_sibling /\ Forall py_ok py_shift /\ Forall py_ok py_shift_word.
Proof. repeat split; repeat constructor; cbn; lia. Qed.




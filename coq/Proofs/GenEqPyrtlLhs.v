(* GenEqPyrtlLhs.v — the denotation of the Python text emitted by _LHSValueCompiler / _StatementCompiler of
   amaranth/sim/_pyrtl.py, regenerated from /repo by translator/unit_pyrtl_lhs.py (coq/Gen/PyRTLLhsGen.v), equals the
   hand-written model Model/Stmt.v (assign_rtl, exec_rtl, exec_rtl_list) on ALL inputs: every environment, every
   target / statement, no well-formedness hypothesis.
   In the generated functions the argument of gen(arg) is a TEXT that is substituted (a thunk env -> Z evaluated in
   the state `next_*` at the point where the text is executed); the lemma shows that this point always is the state in
   which the closure was entered, which is where the model evaluates its integer argument. *)
From Coq Require Import ZArith List Bool Lia.
From V.Model Require Import Bits Shape Ast Denote PyRTL PyEval Stmt Process.
From V.Proofs Require Import ExprP ProcessP.
From V.Gen Require PyRTLLhsGen.
Import ListNotations.
Open Scope Z_scope.

(* ---------- helpers["sign"] ---------- *)
Lemma gen_helper_sign_eq v s : PyRTLLhsGen.helper_sign v s = py_sign v s.
Proof. unfold PyRTLLhsGen.helper_sign, py_sign. destruct (Z.land v s =? 0); reflexivity. Qed.

(* ---------- _LHSValueCompiler ---------- *)
Lemma gen_lhs_gen_eq curr lhs : forall (arg : env -> Z) nx,
  PyRTLLhsGen.lhs_gen curr lhs arg nx = assign_rtl curr lhs (arg nx) nx.
Proof.
  induction lhs as [v s|i s|o a IHa|o a b IHa IHb|a lo hi IHa|a off w st IHa IHoff|l IH|t cs IHt IHcs] using expr_ind';
    intros arg nx.
  - reflexivity.
  - (* Signal: next_i = sign(mask & arg) *)
    cbn [PyRTLLhsGen.lhs_gen assign_rtl]. unfold rsign, rmask, ewidth. cbn [shape_of]. cbv zeta.
    destruct (sgn s); [rewrite gen_helper_sign_eq|]; reflexivity.
  - destruct o; cbn [PyRTLLhsGen.lhs_gen assign_rtl]; try reflexivity; apply IHa.
  - reflexivity.
  - (* Slice: read-modify-write text handed to the operand's closure *)
    cbn [PyRTLLhsGen.lhs_gen assign_rtl]. cbv zeta. rewrite IHa. reflexivity.
  - (* Part *)
    cbn [PyRTLLhsGen.lhs_gen assign_rtl]. cbv zeta. rewrite IHa. reflexivity.
  - (* Concat: cat_N = arg once, then the parts in order *)
    cbn [PyRTLLhsGen.lhs_gen assign_rtl]. cbv zeta. generalize (arg nx) as c. intros c.
    generalize 0 as offset. revert nx.
    induction IH as [|p l Hp _ IHl]; intros nx offset; [reflexivity|].
    rewrite Hp. apply IHl.
  - (* SwitchValue: the first matching case *)
    cbn [PyRTLLhsGen.lhs_gen assign_rtl]. cbv zeta.
    generalize (use_match (map fst cs)) as um. intros um.
    induction IHcs as [|[ps e] cs Hc _ IHl]; [reflexivity|].
    cbn [fst snd] in *. unfold rmask in *.
    destruct (rtl_case_match _ _ ps); [apply Hc|apply IHl].
Qed.

(* ---------- _StatementCompiler ---------- *)
Lemma gen_stmt_gen_eq curr s : forall nx, PyRTLLhsGen.stmt_gen curr s nx = exec_rtl curr s nx.
Proof.
  induction s as [l r|t cs IH] using stmt_ind'; intros nx.
  - cbn [PyRTLLhsGen.stmt_gen exec_rtl]. apply gen_lhs_gen_eq.
  - cbn [PyRTLLhsGen.stmt_gen exec_rtl]. cbv zeta.
    generalize (use_match (map fst cs)) as um. intros um.
    induction IH as [|[ps body] cs Hc _ IHl]; [reflexivity|].
    cbn [fst snd] in *. unfold rmask in *.
    destruct (rtl_case_match _ _ ps); [|apply IHl].
    clear IHl. revert nx.
    assert (Hnil : forall (b : list stmt) (n : env),
              (if match b with [] => true | _ :: _ => false end then n else n) = n) by (intros [|? ?] n; reflexivity).
    generalize body at 1 as b0. intros b0.
    induction Hc as [|s' ss Hs _ IHss]; intros nx; [apply Hnil|].
    rewrite Hs. apply IHss.
Qed.

Lemma gen_stmts_gen_eq curr ss nx : PyRTLLhsGen.stmts_gen curr ss nx = exec_rtl_list curr ss nx.
Proof.
  unfold PyRTLLhsGen.stmts_gen, exec_rtl_list.
  generalize ss at 1 as b0. intros b0. revert nx.
  induction ss as [|s ss IH]; intros nx.
  - destruct b0; reflexivity.
  - cbn [fold_left]. rewrite gen_stmt_gen_eq. apply IH.
Qed.

(* ---------- process skeleton of _FragmentCompiler.__call__ (fragments that are not MemoryInstances): the statements
   emitted per driven signal (i, shape s, init, reset_less); nx = the variables next_*, sl = slots[*].next.
   The right-hand sides are the per-signal terms of Process.comb_process / Process.sync_process. ---------- *)
Lemma land_bit_test m n : negb (Z.land m (Z.shiftl 1 n) =? 0) = Z.testbit m n.
Proof.
  destruct (Z.ltb_spec n 0) as [Hn|Hn].
  - rewrite Z.testbit_neg_r by lia. rewrite Z.shiftl_1_l. rewrite Z.pow_neg_r by lia. rewrite Z.land_0_r. reflexivity.
  - rewrite Z.shiftl_1_l. destruct (Z.testbit m n) eqn:E.
    + destruct (Z.eqb_spec (Z.land m (2 ^ n)) 0) as [H0|H0]; [|reflexivity].
      assert (H : Z.testbit (Z.land m (2 ^ n)) n = true) by (rewrite Z.land_spec, E, Z.pow2_bits_true by lia; reflexivity).
      rewrite H0, Z.bits_0 in H. discriminate.
    + assert (H0 : Z.land m (2 ^ n) = 0).
      { apply Z.bits_inj'. intros k Hk. rewrite Z.land_spec, Z.bits_0.
        destruct (Z.eq_dec k n) as [->|Hne]; [rewrite E; reflexivity|].
        rewrite Z.pow2_bits_false by lia. apply andb_false_r. }
      rewrite H0. reflexivity.
Qed.

Lemma gen_comb_init_eq i s init rl curr nx sl :
  PyRTLLhsGen.comb_init_gen i s init rl curr nx sl = (upd nx i init, sl).
Proof. reflexivity. Qed.

Lemma gen_sync_load_eq i s init rl curr nx sl :
  PyRTLLhsGen.sync_load_gen i s init rl curr nx sl = (upd nx i (sl i), sl).
Proof. reflexivity. Qed.

Lemma gen_sync_reset_eq i s init rl rstv curr nx sl :
  PyRTLLhsGen.sync_reset_gen i s init rl rstv curr nx sl
  = (if negb (Z.land 1 rstv =? 0) && negb rl then upd nx i init else nx, sl).
Proof.
  unfold PyRTLLhsGen.sync_reset_gen. destruct (negb (Z.land 1 rstv =? 0)), rl; reflexivity.
Qed.

Lemma gen_final_update_eq i s init rl mask curr nx sl :
  PyRTLLhsGen.final_update_gen i s init rl mask curr nx sl
  = (nx, upd sl i (slot_update (sl i) (nx i) (update_mask s mask))).
Proof.
  unfold PyRTLLhsGen.final_update_gen, update_mask, ewidth. cbn [shape_of]. rewrite land_bit_test.
  destruct (sgn s && Z.testbit mask (width s - 1)); reflexivity.
Qed.

(* GenEqWiring.v — the definitions regenerated from /repo/amaranth/lib/wiring.py by translator/unit_wiring.py
   (coq/Gen/WiringGen.v) are equal to the hand-written model Model/Wiring.v on all inputs.

   All generated functions live in the exception monad `G.R` (Ret | Raise exn).  Recursion through other objects
   (SignatureMembers.flatten -> member.signature.members.flatten) is generated OPEN (parameter `rec_`):
   gen_flatten_eq shows that the model's flatten solves the generated equation, gen_flatten_unique that it is the
   only solution on dictionaries with distinct keys.

   Guards.
     * Member.signature / .shape / .init on the wrong kind of member raise AttributeError in Python (the model's
       accessors are total): stated per constructor.
     * `nodupb (map fst ms) = true` (d_items, flatten): keys of a Python dict are distinct by construction; the
       model's association list does not enforce it. *)
From Coq Require Import ZArith List Bool Lia.
From V.Model Require Import Bits Wiring.
From V.Proofs Require Import WiringP.
From V.Gen Require WiringGen.
Import ListNotations.
Open Scope Z_scope.

Module G := WiringGen.

(* ------------------------------------------------------------------ Flow, Member *)
Lemma gen_Flow_flip_eq f : G.Flow_flip f = G.Ret (flip_flow f).
Proof. destruct f; reflexivity. Qed.

Lemma gen_Member_flip_eq m : G.Member_flip m = G.Ret (flip_member m).
Proof. unfold G.Member_flip. rewrite gen_Flow_flip_eq. destruct m; reflexivity. Qed.

(* Member.array: the new dimensions are PREPENDED to the existing ones *)
Definition member_array (m : member) (ds : list nat) : member :=
  match m with Port f sh i d => Port f sh i (ds ++ d) | Iface f w ms d => Iface f w ms (ds ++ d) end.
Lemma gen_Member_array_eq m ds : G.Member_array m ds = G.Ret (member_array m ds).
Proof. destruct m; reflexivity. Qed.
Lemma gen_Member_array_dims m ds : m_dims (member_array m ds) = ds ++ m_dims m.
Proof. destruct m; reflexivity. Qed.

Lemma gen_Member_flow_eq m : G.Member_flow m = G.Ret (m_flow m).
Proof. reflexivity. Qed.
Lemma gen_Member_is_port_eq m : G.Member_is_port m = G.Ret (m_is_port m).
Proof. destruct m; reflexivity. Qed.
Lemma gen_Member_is_signature_eq m : G.Member_is_signature m = G.Ret (m_is_iface m).
Proof. destruct m; reflexivity. Qed.
Lemma gen_Member_dimensions_eq m : G.Member_dimensions m = G.Ret (m_dims m).
Proof. reflexivity. Qed.
Lemma gen_Member_shape_eq m :
  G.Member_shape m = if m_is_port m then G.Ret (m_shape m) else G.Raise G.XAttribute.
Proof. destruct m; reflexivity. Qed.
Lemma gen_Member_init_eq m :
  G.Member_init m = if m_is_port m then G.Ret (m_init m) else G.Raise G.XAttribute.
Proof. destruct m; reflexivity. Qed.

(* ------------------------------------------------------------------ Signature.flip / FlippedSignature *)
Lemma gen_Signature_flip_eq x : G.d_flip x = G.Ret (sig_flip x).
Proof. destruct x as [[|] ms]; reflexivity. Qed.
Lemma gen_Signature_flip_unflipped ms : G.Signature_flip (false, ms) = G.Ret (sig_flip (false, ms)).
Proof. reflexivity. Qed.
Lemma gen_FlippedSignature_flip_eq ms : G.FlippedSignature_flip (true, ms) = G.Ret (sig_flip (true, ms)).
Proof. reflexivity. Qed.

(* Member.signature: the description, flipped when the flow is In *)
Lemma gen_Member_signature_eq m :
  G.Member_signature m = if m_is_port m then G.Raise G.XAttribute else G.Ret (member_signature m).
Proof. destruct m as [f sh i d | f w ms d]; [reflexivity|]. destruct f, w; reflexivity. Qed.

(* `.members` of a signature value: the members view carries the same flag and dictionary *)
Lemma gen_members_eq x : G.d_members x = G.Ret x.
Proof. destruct x as [[|] ms]; reflexivity. Qed.

(* ------------------------------------------------------------------ SignatureMembers / FlippedSignatureMembers *)
Lemma gen_getitem_eq v n :
  G.d_getitem v n = match assoc n (snd v) with
                    | Some m => G.Ret (flipm (fst v) m)
                    | None => G.Raise G.XSignature
                    end.
Proof.
  destruct v as [[|] ms]; unfold G.d_getitem, G.FlippedSignatureMembers_getitem, G.SignatureMembers_getitem,
    G.dict_has, G.dict_get, G.unwrap; cbn [fst snd]; destruct (assoc n ms) as [m|]; cbn [negb G.bind]; try reflexivity.
  rewrite gen_Member_flip_eq. reflexivity.
Qed.

Lemma gen_iter_eq v : G.d_iter v = G.Ret (map fst (snd v)).
Proof. destruct v as [[|] ms]; reflexivity. Qed.

Lemma mapM_items v (l : members) :
  (forall n m, In (n, m) l -> assoc n (snd v) = Some m) ->
  G.mapM (fun k => G.bind (G.d_getitem v k) (fun m => G.Ret (k, m))) (map fst l)
  = G.Ret (map (fun nm => (fst nm, flipm (fst v) (snd nm))) l).
Proof.
  induction l as [|[n m] l IH]; intros H; [reflexivity|].
  cbn [map G.mapM fst snd]. rewrite gen_getitem_eq. unfold members. rewrite (H n m (or_introl eq_refl)). cbn [G.bind].
  rewrite IH; [reflexivity|]. intros n' m' Hin. apply H. right. exact Hin.
Qed.

(* Mapping.items() of a members view = the observable members, in insertion order *)
Lemma gen_items_eq v : nodupb (map fst (snd v)) = true -> G.d_items v = G.Ret (sig_members v).
Proof.
  intros Hn. unfold G.d_items. rewrite gen_iter_eq. cbn [G.bind]. apply mapM_items.
  intros n m Hin. apply nodupb_assoc; assumption.
Qed.

(* ------------------------------------------------------------------ SignatureMembers.flatten *)
Definition flat_rec : sigt -> list Z -> G.R (list entry) := fun v p => G.Ret (flat_ms (fst v) p (snd v)).

Lemma gfor_flat {A B} (f : A -> G.R (list B)) (g : A -> list B) l :
  (forall a, In a l -> f a = G.Ret (g a)) -> G.gfor f l = G.Ret (flat_map g l).
Proof.
  induction l as [|a l IH]; intros H; [reflexivity|].
  cbn [G.gfor flat_map]. rewrite (H a (or_introl eq_refl)), IH; [reflexivity|].
  intros b Hb. apply H. right. exact Hb.
Qed.

Lemma flat_map_map {A B C} (h : A -> B) (g : B -> list C) l : flat_map g (map h l) = flat_map (fun a => g (h a)) l.
Proof. induction l as [|a l IH]; [reflexivity|]. cbn [map flat_map]. rewrite IH. reflexivity. Qed.

(* one step of the generated recursion equation, for any `rec_` that agrees with the model on the sub-dictionaries *)
Lemma gen_flatten_step (rec : sigt -> list Z -> G.R (list entry)) v p :
  nodupb (map fst (snd v)) = true ->
  (forall n f w ms d, In (n, Iface f w ms d) (snd v) ->
     rec (sub_flag (fst v) f w, ms) (p ++ [n]) = flat_rec (sub_flag (fst v) f w, ms) (p ++ [n])) ->
  G.Members_flatten_F rec v p = flat_rec v p.
Proof.
  destruct v as [fl dict]. cbn [fst snd]. intros Hn Hrec. unfold G.Members_flatten_F.
  rewrite (gen_items_eq (fl, dict) Hn). cbn [G.bind].
  unfold flat_rec, flat_ms, sig_members. cbn [fst snd].
  erewrite gfor_flat with (g := fun nm => flat_m false p (fst nm) (snd nm)).
  - rewrite flat_map_map. f_equal. apply flat_map_ext. intros [n m]. cbn [fst snd].
    destruct m as [f sh i d | f w ms d]; destruct fl; try reflexivity; destruct f, w; reflexivity.
  - intros [n m'] Hin. apply in_map_iff in Hin. destruct Hin as [[n0 m] [E Hin]]. cbn [fst snd] in E.
    inversion E; subst n0 m'; clear E.
    destruct m as [f sh i d | f w ms d].
    + destruct fl; reflexivity.
    + specialize (Hrec n f w ms d Hin). rewrite gen_Member_is_signature_eq.
      assert (Es : G.Member_signature (flipm fl (Iface f w ms d)) = G.Ret (sub_flag fl f w, ms)).
      { rewrite gen_Member_signature_eq. destruct fl, f, w; reflexivity. }
      assert (Ei : m_is_iface (flipm fl (Iface f w ms d)) = true) by (destruct fl; reflexivity).
      rewrite Ei. cbn [G.bind]. rewrite Es. cbn [G.bind]. rewrite gen_members_eq. cbn [G.bind].
      rewrite Hrec. unfold flat_rec. cbn [G.bind G.gseq fst snd app].
      destruct fl, f, w; reflexivity.
Qed.

(* the model's flatten solves the generated equation *)
Lemma gen_flatten_eq v p :
  nodupb (map fst (snd v)) = true -> G.Members_flatten_F flat_rec v p = flat_rec v p.
Proof. intros Hn. apply gen_flatten_step; [exact Hn|]. reflexivity. Qed.

(* ... and it is the only solution: any function satisfying the generated equation on dictionaries with distinct
   keys (at every level: names_ok) is the model's flatten there *)
Lemma gen_flatten_unique (rec : sigt -> list Z -> G.R (list entry)) :
  (forall v p, rec v p = G.Members_flatten_F rec v p) ->
  forall x, names_ok (top x) = true -> forall p, rec x p = flat_rec x p.
Proof.
  intros Heq x. destruct x as [fl ms]. unfold top. cbn [fst snd].
  assert (H : forall m, names_ok m = true ->
            match m with
            | Iface _ _ ms' _ => forall fl' p, rec (fl', ms') p = flat_rec (fl', ms') p
            | Port _ _ _ _ => True
            end).
  { induction m as [f sh i d | f w ms' d IH] using member_ind2; intros Hok; [exact I|].
    intros fl' p. rewrite Heq. cbn [names_ok] in Hok. apply andb_prop in Hok. destruct Hok as [Hnd Hall].
    apply gen_flatten_step; [exact Hnd|]. cbn [fst snd].
    intros n f0 w0 ms0 d0 Hin. rewrite Forall_forall in IH. specialize (IH (n, Iface f0 w0 ms0 d0) Hin).
    cbn [snd] in IH. apply IH. rewrite forallb_forall in Hall. exact (Hall _ Hin). }
  intros Hok p. exact (H (Iface FOut fl ms []) Hok fl p).
Qed.

(* ShapeP.v — proofs about utils.bits_for & co., Shape.cast(range), enum casting, _unify, Const wrap. *)
From Coq Require Import ZArith List Bool Lia ZifyBool.
From V.Model Require Import Bits Shape.
From V.Proofs Require Import BitsP.
Import ListNotations.
Open Scope Z_scope.

(* ---------- ceil_log2 / exact_log2 ---------- *)
Lemma ceil_log2_neg n : n < 0 -> ceil_log2 n = None.
Proof. intros; unfold ceil_log2. replace (n <? 0) with true by lia. reflexivity. Qed.

Lemma ceil_log2_upper n r : ceil_log2 n = Some r -> 0 <= r /\ n <= 2 ^ r.
Proof.
  unfold ceil_log2. destruct (n <? 0) eqn:E1; [discriminate|].
  destruct (n =? 0) eqn:E2; intros H; inversion H; subst; clear H.
  - simpl; lia.
  - pose proof (bit_length_nonneg (n - 1)). pose proof (bit_length_upper (n - 1) ltac:(lia)). lia.
Qed.

Lemma ceil_log2_least n r w : ceil_log2 n = Some r -> 0 <= w -> n <= 2 ^ w -> r <= w.
Proof.
  unfold ceil_log2. destruct (n <? 0) eqn:E1; [discriminate|].
  destruct (n =? 0) eqn:E2; intros H; inversion H; subst; clear H; intros Hw Hle; [lia|].
  apply bit_length_min; lia.
Qed.

Lemma bit_length_pow2m1 k : 0 <= k -> bit_length (2 ^ k - 1) = k.
Proof.
  intros Hk. pose proof (pow2_pos k Hk).
  destruct (Z.eq_dec k 0) as [->|]; [reflexivity|].
  apply Z.le_antisymm.
  - apply bit_length_min; lia.
  - pose proof (bit_length_upper (2 ^ k - 1) ltac:(lia)).
    pose proof (bit_length_nonneg (2 ^ k - 1)).
    destruct (Z_lt_le_dec (bit_length (2 ^ k - 1)) k); [|lia].
    pose proof (pow2_mono (bit_length (2 ^ k - 1)) (k - 1) ltac:(lia)).
    pose proof (pow2_split k ltac:(lia)). lia.
Qed.

Lemma exact_log2_pow2 r : 0 <= r -> exact_log2 (2 ^ r) = Some r.
Proof.
  intros Hr. unfold exact_log2. pose proof (pow2_pos r Hr).
  replace (2 ^ r <=? 0) with false by lia.
  assert (Z.land (2 ^ r) (2 ^ r - 1) = 0) as ->.
  { replace (2 ^ r - 1) with (Z.ones r) by (rewrite Z.ones_equiv; lia).
    rewrite Z.land_ones by auto. apply Z.mod_same; lia. }
  simpl. f_equal. apply bit_length_pow2m1; auto.
Qed.

Lemma exact_log2_sound n r : exact_log2 n = Some r -> 0 <= r /\ n = 2 ^ r.
Proof.
  unfold exact_log2. destruct (n <=? 0) eqn:E1; simpl; [discriminate|].
  destruct (Z.land n (n - 1) =? 0) eqn:E2; simpl; [|discriminate].
  intros H; inversion H; subst; clear H.
  assert (0 < n) as Hn by lia. apply Z.eqb_eq in E2.
  pose proof (bit_length_nonneg (n - 1)) as Hb. split; [auto|].
  (* n = 2^k + m with k = log2 n, 0 <= m < 2^k; if m > 0 then bit k is set in n and n-1 *)
  pose proof (Z.log2_spec n Hn) as [Hlo Hhi]. set (k := Z.log2 n) in *.
  assert (0 <= k) as Hk by apply Z.log2_nonneg.
  replace (Z.succ k) with (k + 1) in Hhi by lia. rewrite Z.pow_add_r in Hhi by lia.
  change (2 ^ 1) with 2 in Hhi.
  destruct (Z.eq_dec n (2 ^ k)) as [Heq|Hne].
  - replace (bit_length (n - 1)) with k; [exact Heq|]. symmetry.
    replace (n - 1) with (2 ^ k - 1) by lia. apply bit_length_pow2m1; auto.
  - exfalso.
    assert (forall x, 2 ^ k <= x < 2 * 2 ^ k -> Z.testbit x k = true) as Hbit.
    { intros x Hx. apply Z.testbit_true; [lia|].
      assert (x / 2 ^ k = 1) as ->; [|reflexivity].
      symmetry; apply (Z.div_unique x (2 ^ k) 1 (x - 2 ^ k)); lia. }
    assert (Z.testbit (Z.land n (n - 1)) k = true) as Ht.
    { rewrite Z.land_spec, !Hbit by lia. reflexivity. }
    rewrite E2, Z.bits_0 in Ht. discriminate.
Qed.

(* ---------- bits_for ---------- *)
(* fits s n : n representable with width w and given signedness *)
Definition fits (w : Z) (sg : bool) (n : Z) : Prop := in_range (Sh w sg) n.

Lemma bits_for_nonneg n b : 0 <= bits_for n b.
Proof.
  unfold bits_for. pose proof (bit_length_nonneg n). pose proof (bit_length_nonneg (- n - 1)).
  destruct (0 <? n), b, (n =? 0); lia.
Qed.

Lemma bits_for_unsigned_fits n : 0 < n -> fits (bits_for n false) false n.
Proof.
  intros Hn. unfold fits, in_range, bits_for; simpl. replace (0 <? n) with true by lia.
  rewrite Z.add_0_r. pose proof (bit_length_upper n ltac:(lia)). lia.
Qed.

Lemma bits_for_unsigned_least n w : 0 < n -> 0 <= w -> n < 2 ^ w -> bits_for n false <= w.
Proof.
  intros. unfold bits_for. replace (0 <? n) with true by lia. rewrite Z.add_0_r.
  apply bit_length_min; lia.
Qed.

(* signed: result r has  -2^(r-1) <= n < 2^(r-1) *)
Lemma bits_for_signed_fits n b : (b = true \/ n <= 0) -> fits (bits_for n b) true n /\ 1 <= bits_for n b.
Proof.
  intros Hb. unfold fits, in_range, bits_for; simpl.
  destruct (0 <? n) eqn:E.
  - destruct Hb as [->|]; [|lia]. replace (bit_length n + 1 - 1) with (bit_length n) by lia.
    pose proof (bit_length_upper n ltac:(lia)). pose proof (bit_length_nonneg n).
    pose proof (pow2_pos (bit_length n) ltac:(lia)). lia.
  - destruct (n =? 0) eqn:E0.
    + simpl. lia.
    + replace (bit_length (- n - 1) + 1 - 1) with (bit_length (- n - 1)) by lia.
      pose proof (bit_length_upper (- n - 1) ltac:(lia)). pose proof (bit_length_nonneg (- n - 1)).
      lia.
Qed.

Lemma bits_for_signed_least n b w : (b = true \/ n <= 0) -> 1 <= w ->
  - 2 ^ (w - 1) <= n < 2 ^ (w - 1) -> bits_for n b <= w.
Proof.
  intros Hb Hw Hn. unfold bits_for.
  destruct (0 <? n) eqn:E.
  - destruct Hb as [->|]; [|lia].
    pose proof (bit_length_min n (w - 1) ltac:(lia) ltac:(lia) ltac:(lia)). lia.
  - destruct (n =? 0) eqn:E0; [lia|].
    pose proof (bit_length_min (- n - 1) (w - 1) ltac:(lia) ltac:(lia) ltac:(lia)). lia.
Qed.

(* monotonicity, used for ranges *)
Lemma in_range_convex s a b v : in_range s a -> in_range s b -> a <= v <= b -> in_range s v.
Proof. unfold in_range; destruct (sgn s); lia. Qed.

(* ---------- ranges ---------- *)
Lemma range_len_nonneg a b st : st <> 0 -> 0 <= range_len a b st.
Proof.
  intros. unfold range_len. destruct (0 <? st) eqn:E.
  - destruct (a <? b) eqn:E2; [|lia]. pose proof (Z.div_pos (b - a - 1) st ltac:(lia) ltac:(lia)). lia.
  - destruct (b <? a) eqn:E2; [|lia]. pose proof (Z.div_pos (a - b - 1) (- st) ltac:(lia) ltac:(lia)). lia.
Qed.

(* elements of the Python range: start + k*step for 0 <= k < len, all strictly on the start side of stop,
   and the next one is not *)
Lemma range_len_spec a b st k : st <> 0 -> 0 <= k < range_len a b st ->
  if 0 <? st then a <= range_nth a st k < b else b < range_nth a st k <= a.
Proof.
  intros Hst Hk. unfold range_len, range_nth in *. destruct (0 <? st) eqn:E.
  - destruct (a <? b) eqn:E2; [|lia].
    assert (k <= (b - a - 1) / st) by lia.
    assert (k * st <= b - a - 1).
    { pose proof (Z.mul_div_le (b - a - 1) st ltac:(lia)). nia. }
    nia.
  - destruct (b <? a) eqn:E2; [|lia].
    assert (k <= (a - b - 1) / (- st)) by lia.
    assert (k * (- st) <= a - b - 1).
    { pose proof (Z.mul_div_le (a - b - 1) (- st) ltac:(lia)). nia. }
    nia.
Qed.

Lemma range_len_complete a b st : st <> 0 ->
  let n := range_len a b st in
  if 0 <? st then b <= range_nth a st n else range_nth a st n <= b.
Proof.
  intros Hst n. subst n. unfold range_len, range_nth. destruct (0 <? st) eqn:E.
  - destruct (a <? b) eqn:E2; [|lia].
    pose proof (Z.div_mod (b - a - 1) st ltac:(lia)).
    pose proof (Z.mod_pos_bound (b - a - 1) st ltac:(lia)). nia.
  - destruct (b <? a) eqn:E2; [|lia].
    pose proof (Z.div_mod (a - b - 1) (- st) ltac:(lia)).
    pose proof (Z.mod_pos_bound (a - b - 1) (- st) ltac:(lia)). nia.
Qed.

Definition range_elem (a b st v : Z) : Prop := exists k, 0 <= k < range_len a b st /\ v = range_nth a st k.

Lemma cast_range_wf a b st : wf_shape (cast_range a b st) = true.
Proof.
  unfold cast_range. destruct (range_len a b st =? 0); [reflexivity|].
  set (last := range_nth a st (range_len a b st - 1)).
  destruct ((a =? 0) && (last =? 0)) eqn:E0.
  - unfold wf_shape; simpl. replace (a <? 0) with false by lia. replace (last <? 0) with false by lia. reflexivity.
  - unfold wf_shape; simpl. destruct ((a <? 0) || (last <? 0)) eqn:Es.
    + destruct (bits_for_signed_fits a true (or_introl eq_refl)) as [_ H1]. lia.
    + pose proof (bits_for_nonneg a false). lia.
Qed.

Lemma cast_range_empty a b st : range_len a b st = 0 -> cast_range a b st = Sh 0 false.
Proof. intros H; unfold cast_range; rewrite H; reflexivity. Qed.

Lemma cast_range_signed_iff a b st : st <> 0 ->
  sgn (cast_range a b st) = true <-> exists v, range_elem a b st v /\ v < 0.
Proof.
  intros Hst. pose proof (range_len_nonneg a b st Hst) as Hn.
  unfold cast_range. destruct (range_len a b st =? 0) eqn:En.
  - simpl; split; [discriminate|]. intros (v & (k & Hk & _) & _); lia.
  - set (n := range_len a b st) in *. set (last := range_nth a st (n - 1)).
    assert (sgn (if (a =? 0) && (last =? 0) then Sh 0 ((a <? 0) || (last <? 0))
                 else Sh (Z.max (bits_for a ((a <? 0) || (last <? 0))) (bits_for last ((a <? 0) || (last <? 0))))
                      ((a <? 0) || (last <? 0))) = ((a <? 0) || (last <? 0))) as ->
      by (destruct ((a =? 0) && (last =? 0)); reflexivity).
    split.
    + intros H. destruct (a <? 0) eqn:Ea.
      * exists a; split; [|lia]. exists 0; unfold range_nth; split; lia.
      * exists last; split; [|lia]. exists (n - 1); split; [lia|reflexivity].
    + intros (v & (k & Hk & ->) & Hneg). fold n in Hk.
      unfold last, range_nth in *. destruct (0 <? st) eqn:E.
      * assert (a < 0) by nia. lia.
      * assert (a + (n - 1) * st <= a + k * st) by nia. lia.
Qed.

Theorem cast_range_represents a b st v : st <> 0 -> range_elem a b st v -> in_range (cast_range a b st) v.
Proof.
  intros Hst (k & Hk & ->). pose proof (range_len_nonneg a b st Hst) as Hn.
  unfold cast_range. destruct (range_len a b st =? 0) eqn:En; [lia|].
  set (n := range_len a b st) in *. set (last := range_nth a st (n - 1)).
  set (sg := (a <? 0) || (last <? 0)).
  assert (Hmono : (a <= range_nth a st k <= last) \/ (last <= range_nth a st k <= a)).
  { unfold last, range_nth. destruct (0 <? st) eqn:E; [left|right]; nia. }
  destruct ((a =? 0) && (last =? 0)) eqn:E0.
  - assert (range_nth a st k = 0) as -> by lia. unfold in_range; simpl.
    assert (sg = false) as -> by (unfold sg; lia). simpl; lia.
  - set (w := Z.max (bits_for a sg) (bits_for last sg)).
    assert (Hfit : forall x, (x = a \/ x = last) -> in_range (Sh w sg) x).
    { intros x Hx. assert (bits_for x sg <= w) as Hle by (destruct Hx; subst; unfold w; lia).
      destruct sg eqn:Es.
      - pose proof (bits_for_signed_fits x true (or_introl eq_refl)) as [Hf H1].
        unfold fits, in_range in *; simpl in *.
        pose proof (pow2_mono (bits_for x true - 1) (w - 1) ltac:(lia)). lia.
      - assert (0 <= x) by (unfold sg in Es; destruct Hx; subst; lia).
        unfold in_range; simpl. destruct (Z.eq_dec x 0) as [->|].
        + pose proof (bits_for_nonneg a false). pose proof (pow2_pos w ltac:(lia)). lia.
        + pose proof (bits_for_unsigned_fits x ltac:(lia)) as Hf. unfold fits, in_range in Hf; simpl in Hf.
          pose proof (bits_for_nonneg x false).
          pose proof (pow2_mono (bits_for x false) w ltac:(lia)). lia. }
    destruct Hmono; [apply (in_range_convex _ a last)|apply (in_range_convex _ last a)]; auto.
Qed.

(* minimality: any well-formed shape holding first and last element is at least as wide *)
Theorem cast_range_minimal a b st s : st <> 0 -> wf_shape s = true ->
  (forall v, range_elem a b st v -> in_range s v) -> width (cast_range a b st) <= width s.
Proof.
  intros Hst Hwf Hall. pose proof (range_len_nonneg a b st Hst) as Hn.
  unfold cast_range. destruct (range_len a b st =? 0) eqn:En.
  { simpl. unfold wf_shape in Hwf. destruct (sgn s); lia. }
  set (n := range_len a b st) in *. set (last := range_nth a st (n - 1)).
  set (sg := (a <? 0) || (last <? 0)).
  assert (Ha : in_range s a). { apply Hall. exists 0; unfold range_nth; split; lia. }
  assert (Hl : in_range s last). { apply Hall. exists (n - 1); split; [lia|reflexivity]. }
  destruct ((a =? 0) && (last =? 0)) eqn:E0.
  { simpl. unfold wf_shape in Hwf. destruct (sgn s); lia. }
  simpl.
  assert (Hone : forall x, in_range s x -> (sg = false -> 0 <= x) -> bits_for x sg <= width s \/ (x = 0)).
  { intros x Hx Hsg. unfold in_range, wf_shape in *. destruct sg eqn:Es.
    - destruct (sgn s) eqn:Ess.
      + left. apply bits_for_signed_least; auto; lia.
      + (* s unsigned but some element negative: impossible *)
        exfalso. unfold sg in Es. destruct (a <? 0) eqn:Ea; lia.
    - specialize (Hsg eq_refl). destruct (Z.eq_dec x 0) as [->|]; [right; reflexivity|left].
      destruct (sgn s) eqn:Ess.
      + pose proof (bits_for_unsigned_least x (width s - 1) ltac:(lia) ltac:(lia) ltac:(lia)). lia.
      + apply bits_for_unsigned_least; lia. }
  assert (Hnn : sg = false -> 0 <= a /\ 0 <= last) by (unfold sg; lia).
  destruct (Hone a Ha ltac:(intros; apply Hnn; auto)) as [H1|H1];
  destruct (Hone last Hl ltac:(intros; apply Hnn; auto)) as [H2|H2]; try lia.
  - subst last. rewrite H2 in *. (* last = 0: bits_for 0 _ = 1 *)
    assert (bits_for 0 sg = 1) as Hb0 by (destruct sg; reflexivity). 
    assert (1 <= bits_for a sg).
    { unfold bits_for. pose proof (bit_length_nonneg a). pose proof (bit_length_nonneg (- a - 1)).
      destruct (0 <? a) eqn:Ea.
      - pose proof (bit_length_spec a ltac:(lia)). destruct (Z.eq_dec (bit_length a) 0) as [e|]; [|destruct sg; lia].
        rewrite e in *. simpl in *. lia.
      - destruct (a =? 0); lia. }
    lia.
  - rewrite H1 in *.
    assert (bits_for 0 sg = 1) as Hb0 by (destruct sg; reflexivity).
    assert (1 <= bits_for last sg).
    { unfold bits_for. pose proof (bit_length_nonneg last). pose proof (bit_length_nonneg (- last - 1)).
      destruct (0 <? last) eqn:Ea.
      - pose proof (bit_length_spec last ltac:(lia)). destruct (Z.eq_dec (bit_length last) 0) as [e|]; [|destruct sg; lia].
        rewrite e in *. simpl in *. lia.
      - destruct (last =? 0); lia. }
    lia.
Qed.

(* ---------- shapes as sets of values; _unify; enumerations ---------- *)
Definition shape_le (a b : shape) : Prop := forall v, in_range a v -> in_range b v.

Lemma shape_le_char a b : wf_shape a = true -> wf_shape b = true ->
  (shape_le a b <->
   if sgn a then sgn b = true /\ width a <= width b
   else if sgn b then width a + 1 <= width b else width a <= width b).
Proof.
  unfold wf_shape, shape_le, in_range. intros Ha Hb.
  destruct (sgn a) eqn:Ea, (sgn b) eqn:Eb.
  - split.
    + intros H. split; [reflexivity|]. destruct (Z_le_gt_dec (width a) (width b)); [auto|exfalso].
      specialize (H (- 2 ^ (width a - 1)) ltac:(pose proof (pow2_pos (width a - 1)); lia)).
      pose proof (pow2_mono_lt (width b - 1) (width a - 1) ltac:(lia)). lia.
    + intros [_ H] v Hv. pose proof (pow2_mono (width a - 1) (width b - 1) ltac:(lia)). lia.
  - split.
    + intros H. specialize (H (-1) ltac:(pose proof (pow2_pos (width a - 1)); lia)). lia.
    + intros [H _]; discriminate.
  - split.
    + intros H. destruct (Z_le_gt_dec (width a + 1) (width b)); [auto|exfalso].
      specialize (H (2 ^ width a - 1) ltac:(pose proof (pow2_pos (width a)); lia)).
      pose proof (pow2_mono_lt (width b - 1) (width a) ltac:(lia)). lia.
    + intros H v Hv. pose proof (pow2_mono (width a) (width b - 1) ltac:(lia)). lia.
  - split.
    + intros H. destruct (Z_le_gt_dec (width a) (width b)); [auto|exfalso].
      specialize (H (2 ^ width a - 1) ltac:(pose proof (pow2_pos (width a)); lia)).
      pose proof (pow2_mono (width b) (width a - 1) ltac:(lia)).
      pose proof (pow2_split (width a) ltac:(lia)). pose proof (pow2_pos (width a - 1) ltac:(lia)). lia.
    + intros H v Hv. pose proof (pow2_mono (width a) (width b) ltac:(lia)). lia.
Qed.

(* closed form of the _unify loop *)
Definition umax (l : list shape) : Z := fold_right (fun s m => if sgn s then m else Z.max (width s) m) 0 l.
Definition smax (l : list shape) : Z := fold_right (fun s m => if sgn s then Z.max (width s) m else m) 0 l.

Lemma unify_fold l : forall uw sw hs, 0 <= uw -> 0 <= sw ->
  fold_left unify_acc l (uw, sw, hs) = (Z.max uw (umax l), Z.max sw (smax l), hs || existsb sgn l).
Proof.
  induction l as [|s l IH]; intros uw sw hs Hu Hs; simpl.
  - rewrite orb_false_r, !Z.max_l by lia. reflexivity.
  - destruct (sgn s) eqn:E; rewrite IH by lia; simpl.
    + rewrite orb_true_r. replace (Z.max (Z.max sw (width s)) (smax l)) with (Z.max sw (Z.max (width s) (smax l))) by lia.
      reflexivity.
    + replace (Z.max (Z.max uw (width s)) (umax l)) with (Z.max uw (Z.max (width s) (umax l))) by lia.
      reflexivity.
Qed.

Lemma umax_nonneg l : 0 <= umax l.
Proof. induction l as [|s l IH]; simpl; [lia|destruct (sgn s); lia]. Qed.
Lemma smax_nonneg l : 0 <= smax l.
Proof. induction l as [|s l IH]; simpl; [lia|destruct (sgn s); lia]. Qed.

Lemma unify_closed l : unify l =
  if existsb sgn l then Sh (Z.max (smax l) (umax l + 1)) true else Sh (umax l) false.
Proof.
  unfold unify. rewrite unify_fold by lia. simpl.
  pose proof (umax_nonneg l). pose proof (smax_nonneg l).
  destruct (existsb sgn l); f_equal; lia.
Qed.

Lemma umax_ge l s : In s l -> sgn s = false -> width s <= umax l.
Proof. induction l as [|x l IH]; simpl; [tauto|]. intros [->|Hin] Hs; [rewrite Hs; lia|]. specialize (IH Hin Hs). destruct (sgn x); lia. Qed.
Lemma smax_ge l s : In s l -> sgn s = true -> width s <= smax l.
Proof. induction l as [|x l IH]; simpl; [tauto|]. intros [->|Hin] Hs; [rewrite Hs; lia|]. specialize (IH Hin Hs). destruct (sgn x); lia. Qed.
Lemma umax_attained l : umax l = 0 \/ exists s, In s l /\ sgn s = false /\ width s = umax l.
Proof.
  induction l as [|x l IH]; simpl; [left; reflexivity|].
  destruct (sgn x) eqn:E.
  - destruct IH as [IH|(s & Hin & Hs & Hw)]; [left; auto|right; exists s; auto].
  - destruct (Z_le_gt_dec (umax l) (width x)).
    + right; exists x; repeat split; auto; lia.
    + destruct IH as [IH|(s & Hin & Hs & Hw)]; [left; lia|right; exists s; repeat split; auto; lia].
Qed.
Lemma smax_attained l : smax l = 0 \/ exists s, In s l /\ sgn s = true /\ width s = smax l.
Proof.
  induction l as [|x l IH]; simpl; [left; reflexivity|].
  destruct (sgn x) eqn:E.
  - destruct (Z_le_gt_dec (smax l) (width x)).
    + right; exists x; repeat split; auto; lia.
    + destruct IH as [IH|(s & Hin & Hs & Hw)]; [left; lia|right; exists s; repeat split; auto; lia].
  - destruct IH as [IH|(s & Hin & Hs & Hw)]; [left; auto|right; exists s; auto].
Qed.

Lemma unify_wf l : Forall (fun s => wf_shape s = true) l -> wf_shape (unify l) = true.
Proof.
  intros Hwf. rewrite unify_closed.
  pose proof (umax_nonneg l).
  destruct (existsb sgn l); unfold wf_shape; simpl; lia.
Qed.

Theorem unify_signed_iff l : sgn (unify l) = true <-> exists s, In s l /\ sgn s = true.
Proof.
  rewrite unify_closed. destruct (existsb sgn l) eqn:E; simpl.
  - apply existsb_exists in E. tauto.
  - split; [discriminate|]. intros H. apply existsb_exists in H. congruence.
Qed.

Theorem unify_upper l s : Forall (fun s => wf_shape s = true) l -> In s l -> shape_le s (unify l).
Proof.
  intros Hwf Hin. pose proof (unify_wf l Hwf) as Hu.
  assert (Hs : wf_shape s = true) by (rewrite Forall_forall in Hwf; auto).
  apply shape_le_char; auto. rewrite unify_closed in *.
  destruct (sgn s) eqn:Es.
  - assert (existsb sgn l = true) as -> by (apply existsb_exists; eauto). simpl.
    pose proof (smax_ge l s Hin Es). split; [auto|lia].
  - pose proof (umax_ge l s Hin Es). destruct (existsb sgn l); simpl; lia.
Qed.

Theorem unify_least l t : Forall (fun s => wf_shape s = true) l -> wf_shape t = true ->
  (forall s, In s l -> shape_le s t) -> width (unify l) <= width t.
Proof.
  intros Hwf Ht Hall. rewrite unify_closed.
  assert (Hle : forall s, In s l -> if sgn s then sgn t = true /\ width s <= width t
              else if sgn t then width s + 1 <= width t else width s <= width t).
  { intros s Hin. apply shape_le_char; auto. rewrite Forall_forall in Hwf; auto. }
  assert (Ht0 : 0 <= width t) by (unfold wf_shape in Ht; destruct (sgn t); lia).
  destruct (existsb sgn l) eqn:E; simpl.
  - apply existsb_exists in E. destruct E as (s0 & Hin0 & Hs0).
    pose proof (Hle s0 Hin0) as H0. rewrite Hs0 in H0. destruct H0 as [Hts _].
    assert (smax l <= width t).
    { destruct (smax_attained l) as [->|(s & Hin & Hs & <-)]; [lia|].
      specialize (Hle s Hin). rewrite Hs in Hle. lia. }
    assert (umax l + 1 <= width t).
    { destruct (umax_attained l) as [->|(s & Hin & Hs & <-)].
      - unfold wf_shape in Ht. rewrite Hts in Ht. lia.
      - specialize (Hle s Hin). rewrite Hs, Hts in Hle. lia. }
    lia.
  - destruct (umax_attained l) as [->|(s & Hin & Hs & <-)]; [lia|].
    specialize (Hle s Hin). rewrite Hs in Hle. destruct (sgn t); lia.
Qed.

Theorem cast_enum_is_unify ms : cast_enum ms = unify (map const_shape ms).
Proof.
  unfold cast_enum, unify. generalize (map const_shape ms) as l; clear ms.
  (* invariant between the two accumulators *)
  assert (Hinv : forall (l : list shape) (uw sw : Z) (hs : bool) (acc : shape),
    0 <= uw ->
    acc = (if hs then Sh (Z.max sw (uw + 1)) true else Sh uw false) -> (hs = false -> sw = 0) ->
    fold_left enum_step l acc =
    (let '(uw', sw', hs') := fold_left unify_acc l (uw, sw, hs) in
     if hs' then Sh (Z.max sw' (uw' + 1)) true else Sh uw' false)).
  { induction l as [|s l IH]; intros uw sw hs acc Huw Hacc Hsw; simpl.
    - auto.
    - subst acc. destruct (sgn s) eqn:Es.
      + apply IH; [auto| |discriminate].
        unfold enum_step. destruct hs; simpl; rewrite Es; simpl.
        * f_equal; lia.
        * rewrite (Hsw eq_refl). f_equal; lia.
      + apply IH; [lia| |auto].
        unfold enum_step. destruct hs; simpl; rewrite Es; simpl; f_equal; lia. }
  intros l. apply (Hinv l 0 0 false); auto; lia.
Qed.

Lemma const_shape_wf v : wf_shape (const_shape v) = true.
Proof.
  unfold const_shape, wf_shape; simpl. destruct (v <? 0) eqn:E.
  - assert (v <= 0) as Hv by lia. destruct (bits_for_signed_fits v false (or_intror Hv)) as [_ H1]. lia.
  - pose proof (bits_for_nonneg v false). lia.
Qed.

Lemma const_shape_fits v : in_range (const_shape v) v.
Proof.
  unfold const_shape. destruct (v <? 0) eqn:E.
  - apply (bits_for_signed_fits v false). right; lia.
  - destruct (Z.eq_dec v 0) as [->|]; [unfold in_range; simpl; lia|].
    apply bits_for_unsigned_fits; lia.
Qed.

(* every member is representable in the enum's shape *)
Theorem cast_enum_represents ms v : In v ms -> in_range (cast_enum ms) v.
Proof.
  intros Hin. rewrite cast_enum_is_unify.
  apply (unify_upper (map const_shape ms) (const_shape v)).
  - apply Forall_forall. intros s Hs. apply in_map_iff in Hs. destruct Hs as (x & <- & _). apply const_shape_wf.
  - apply in_map; auto.
  - apply const_shape_fits.
Qed.

Theorem cast_enum_signed_iff ms : sgn (cast_enum ms) = true <-> exists v, In v ms /\ v < 0.
Proof.
  rewrite cast_enum_is_unify, unify_signed_iff. split.
  - intros (s & Hin & Hs). apply in_map_iff in Hin. destruct Hin as (v & <- & Hv).
    exists v; split; auto. unfold const_shape in Hs; simpl in Hs; lia.
  - intros (v & Hin & Hv). exists (const_shape v). split; [apply in_map; auto|].
    unfold const_shape; simpl; lia.
Qed.

(* ---------- Const.__init__ wrap ---------- *)
Theorem const_norm_spec s v : wf_shape s = true -> const_norm s v = norm s v.
Proof.
  unfold wf_shape, const_norm, norm. rewrite Z.shiftl_1_l. intros Hwf.
  destruct (sgn s) eqn:Es; simpl.
  - rewrite <- Z.testbit_odd. unfold sext. rewrite msb_test by lia.
    destruct (Z.testbit v (width s - 1)) eqn:Eb.
    + assert (0 <= width s) as Hw0 by lia.
      pose proof (Z.mod_pos_bound v (2 ^ width s) (pow2_pos _ Hw0)).
      rewrite sub_pow2_lor by lia.
      apply Z.bits_inj'; intros i Hi. rewrite !Z.lor_spec, Z.testbit_mod_pow2, testbit_neg_pow2 by lia.
      destruct (i <? width s) eqn:E; simpl; auto.
      replace (width s <=? i) with true by lia. rewrite !orb_true_r; reflexivity.
    + apply mask_land_pow; lia.
  - apply mask_land_pow; lia.
Qed.

(* ---------- Const.cast on Const / Cat / Slice trees ---------- *)
Section cexpr_ind'.
  Variable P : cexpr -> Prop.
  Hypothesis Hc : forall v s, P (CConst v s).
  Hypothesis Hcat : forall l, Forall P l -> P (CCat l).
  Hypothesis Hs : forall e lo hi, P e -> P (CSlice e lo hi).
  Fixpoint cexpr_ind' (e : cexpr) : P e :=
    match e with
    | CConst v s => Hc v s
    | CCat l => Hcat l ((fix go (l : list cexpr) : Forall P l :=
                           match l with
                           | [] => Forall_nil _
                           | x :: xs => Forall_cons _ (cexpr_ind' x) (go xs)
                           end) l)
    | CSlice e lo hi => Hs e lo hi (cexpr_ind' e)
    end.
End cexpr_ind'.

Definition cshape (e : cexpr) : shape :=
  match e with CConst _ s => s | _ => Sh (cwidth e) false end.

Lemma cwidth_cshape e : width (cshape e) = cwidth e.
Proof. destruct e; reflexivity. Qed.

Definition cat_sum := fix go (ps : list cexpr) : Z :=
  match ps with [] => 0 | p :: ps' => (cdenote p) mod 2 ^ (cwidth p) + 2 ^ (cwidth p) * go ps' end.
Definition cat_width (ps : list cexpr) : Z := fold_right (fun p acc => cwidth p + acc) 0 ps.

Lemma cwidth_nonneg e : cwf e = true -> 0 <= cwidth e.
Proof.
  induction e as [v s|l IH|e lo hi IH] using cexpr_ind'; simpl; intros Hwf.
  - unfold wf_shape in Hwf. destruct (sgn s); lia.
  - induction l as [|p l IHl]; simpl in *; [lia|].
    apply andb_prop in Hwf. destruct Hwf as [Hp Hl]. inversion IH; subst.
    specialize (IHl H2 Hl). specialize (H1 Hp). lia.
  - lia.
Qed.

Lemma cat_sum_range l : forallb cwf l = true -> 0 <= cat_sum l < 2 ^ cat_width l.
Proof.
  induction l as [|p l IH]; simpl; intros Hwf; [lia|].
  apply andb_prop in Hwf. destruct Hwf as [Hp Hl]. specialize (IH Hl).
  pose proof (cwidth_nonneg p Hp) as Hw.
  assert (0 <= cat_width l) as Hcw.
  { clear IH. induction l as [|q l IHl]; simpl in *; [lia|].
    apply andb_prop in Hl. destruct Hl as [Hq Hl]. pose proof (cwidth_nonneg q Hq). specialize (IHl Hl). lia. }
  rewrite Z.pow_add_r by lia.
  pose proof (Z.mod_pos_bound (cdenote p) (2 ^ cwidth p) (pow2_pos _ Hw)).
  pose proof (pow2_pos _ Hw). pose proof (pow2_pos _ Hcw). nia.
Qed.

Theorem const_cast_eval e : cwf e = true ->
  const_cast e = (norm (cshape e) (cdenote e), cshape e) /\ wf_shape (cshape e) = true.
Proof.
  induction e as [v s|l IH|e lo hi IH] using cexpr_ind'; intros Hwf.
  - simpl in *. rewrite const_norm_spec by auto. split; [|auto].
    rewrite norm_idem by auto. reflexivity.
  - (* Cat *)
    assert (Hgo : forall ps value width, Forall (fun e => cwf e = true ->
                const_cast e = (norm (cshape e) (cdenote e), cshape e) /\ wf_shape (cshape e) = true) ps ->
              forallb cwf ps = true -> 0 <= width -> 0 <= value < 2 ^ width ->
              fold_left cat_step (map const_cast ps) (value, width)
              = (value + 2 ^ width * cat_sum ps, width + cat_width ps)).
    { induction ps as [|p ps IHps]; intros value width HF Hw Hwd Hv.
      - simpl. f_equal; lia.
      - simpl in Hw. apply andb_prop in Hw. destruct Hw as [Hp Hps]. inversion HF; subst.
        destruct (H1 Hp) as [Hcc Hwfp]. simpl map. simpl fold_left. rewrite Hcc.
        pose proof (cwidth_nonneg p Hp) as Hcw. rewrite cwidth_cshape.
        rewrite const_norm_spec by (unfold wf_shape; simpl; lia).
        unfold norm at 1; simpl sgn; cbv iota; simpl Bits.width.
        assert (mask (cwidth p) (norm (cshape p) (cdenote p)) = (cdenote p) mod 2 ^ cwidth p) as Hm.
        { destruct (norm_congr (cshape p) (cdenote p) Hwfp) as [k ->]. rewrite cwidth_cshape.
          apply mask_add_mul; auto. }
        rewrite Hm. set (m := cdenote p mod 2 ^ cwidth p).
        pose proof (Z.mod_pos_bound (cdenote p) (2 ^ cwidth p) (pow2_pos _ Hcw)) as Hmb. fold m in Hmb.
        rewrite lor_shiftl_add by lia.
        rewrite IHps; auto; try lia.
        + simpl. f_equal; [|lia]. rewrite Z.pow_add_r by lia. fold cat_sum. lia.
        + rewrite Z.pow_add_r by lia. pose proof (pow2_pos _ Hwd). nia. }
    simpl in Hwf. simpl const_cast.
    rewrite (Hgo l 0 0 IH Hwf ltac:(lia) ltac:(simpl; lia)).
    change (2 ^ 0) with 1. rewrite Z.mul_1_l, !Z.add_0_l.
    pose proof (cat_sum_range l Hwf) as Hr.
    assert (0 <= cat_width l) as Hcw.
    { clear -Hwf. induction l as [|q l IHl]; simpl in *; [lia|].
      apply andb_prop in Hwf. destruct Hwf as [Hq Hl]. pose proof (cwidth_nonneg q Hq). specialize (IHl Hl). lia. }
    replace (cat_sum l <? 0) with false by lia.
    assert (wf_shape (Sh (cat_width l) false) = true) as Hwfs by (unfold wf_shape; simpl; lia).
    rewrite const_norm_spec by auto.
    assert (cshape (CCat l) = Sh (cat_width l) false) as -> by reflexivity.
    assert (cdenote (CCat l) = cat_sum l) as -> by reflexivity.
    split; [|auto]. rewrite norm_id; auto.
  - (* Slice *)
    simpl in Hwf. apply andb_prop in Hwf. destruct Hwf as [Hwf H3]. apply andb_prop in Hwf. destruct Hwf as [Hwf H2].
    apply andb_prop in Hwf. destruct Hwf as [Hwf H1]. destruct (IH Hwf) as [Hcc Hws].
    simpl const_cast. rewrite Hcc.
    assert (wf_shape (Sh (hi - lo) false) = true) as Hwfs by (unfold wf_shape; simpl; lia).
    rewrite const_norm_spec by auto. split; [|exact Hwfs].
    assert (cshape (CSlice e lo hi) = Sh (hi - lo) false) as -> by reflexivity.
    f_equal. simpl cdenote. rewrite !norm_unsigned.
    change ((cdenote e / 2 ^ lo) mod 2 ^ (hi - lo)) with (mask (hi - lo) (cdenote e / 2 ^ lo)).
    rewrite mask_idem by lia. unfold mask.
    rewrite Z.shiftr_div_pow2 by lia.
    apply Z.bits_inj'; intros i Hi. rewrite !Z.testbit_mod_pow2 by lia.
    destruct (i <? hi - lo) eqn:E; simpl; auto.
    rewrite !testbit_div_pow2 by lia. rewrite testbit_norm by (auto; lia).
    rewrite cwidth_cshape.
    destruct (sgn (cshape e)).
    + replace (i + lo <? cwidth e) with true by lia. reflexivity.
    + replace (i + lo <? cwidth e) with true by lia. reflexivity.
Qed.

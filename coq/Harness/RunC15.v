(* RunC15.v — executable wrappers (model answers as lists of integers) for the C15 cases. *)
From Coq Require Import ZArith List Bool.
From V.Model Require Export Bits Shape Data.
From V.Harness Require Import Run.
Import ListNotations.
Open Scope Z_scope.

Definition enc (r : res) : list Z := match r with Ok _ v => [1; v] | Err c => [0; c] end.
Definition encz (r : resz) : list Z := match r with Okz v => [1; v] | Errz c => [0; c] end.
Definition encf (r : fres) : list Z := match r with FMem v => [1; v] | FInt v => [2; v] | FErr => [0] end.

(* layout.size; (key, offset, width) in iteration order; then layout[key].offset/.width for every key *)
Definition k_layout (l : layout) : list Z :=
  layout_size l ::
  flat_map (fun kf => [fst kf; fst (snd kf); layout_size (snd (snd kf))]) (fields_of l) ++
  flat_map (fun kf => match field_of l (fst kf) with
                      | Some (o, s) => [o; layout_size s]
                      | None => [-1]
                      end) (fields_of l).
(* layout[k] *)
Definition k_getfield (l : layout) (k : Z) : list Z :=
  match field_of l k with Some (o, s) => [1; o; layout_size s] | None => [0] end.
(* layout.const(init).as_bits(), then const[path] for every path *)
Definition k_const (l : layout) (i : init) (paths : list (list Z)) : list Z :=
  encz (layout_const l i) ++
  match layout_const l i with
  | Okz v => flat_map (fun p => enc (const_path l v p)) paths
  | _ => []
  end.
(* layout.from_bits(raw).as_bits(), then every field of the constant *)
Definition k_bits (l : layout) (raw : Z) : list Z :=
  enc (from_bits l raw) ++
  match from_bits l raw with
  | Ok _ v => flat_map (fun kf => enc (const_getitem l v (fst kf))) (fields_of l)
  | _ => []
  end.
(* ctx.get(view[path]) for every path, target value tv *)
Definition k_view (l : layout) (tv : Z) (paths : list (list Z)) : list Z :=
  flat_map (fun p => enc (view_path l tv p)) paths.
(* ctx.get(view[path][idx_signal]) *)
Definition k_viewdyn (l : layout) (tv : Z) (p : list Z) (idx : Z) : list Z :=
  match view_path l tv p with
  | Ok sub v => enc (view_getitem_dyn sub v idx)
  | e => enc e
  end.
(* ctx.set(view[path], x); ctx.get(view.as_value()); ctx.get(view[path]) *)
Definition k_assign (l : layout) (tv : Z) (p : list Z) (x : Z) : list Z :=
  match view_assign l tv p x with
  | Okz v => 1 :: v :: enc (view_path l v p)
  | Errz c => [0; c]
  end.

Definition k_enum_const (s : shape) (ms : list Z) (i : Z) : list Z := encz (enum_const s ms i).
Definition k_enum_bits (ms : list Z) (raw : Z) : list Z := encz (enum_from_bits ms raw).

Definition k_flag_new (E : flagcls) (v : Z) : list Z := encf (py_flag_new E v).
Definition k_flag_pyop (E : flagcls) (o : bop) (x y : Z) : list Z := encf (py_flag_bop E o x y).
Definition k_flag_pynot (E : flagcls) (x : Z) : list Z := encf (py_flag_not E x).
Definition k_flag_fvop (E : flagcls) (o : bop) (x y : Z) : list Z := encf (fv_bop E o x y).
Definition k_flag_fvnot (E : flagcls) (x : Z) : list Z :=
  match fv_not E x with Some r => encf r | None => [3] end.
Definition k_flag_const (E : flagcls) (i : Z) : list Z := encz (flag_const E i).
Definition k_flag_bits (E : flagcls) (raw : Z) : list Z := encf (flag_from_bits E raw).

(* layout.const(init) with mixed initialiser kinds, then const[path] for every path *)
Definition k_xconst (l : layout) (i : xinit) (paths : list (list Z)) : list Z :=
  encz (xlayout_const l i) ++
  match xlayout_const l i with
  | Okz v => flat_map (fun p => enc (const_path l v p)) paths
  | _ => []
  end.
(* Signal(layout, init=...): any exception of layout.const is re-raised as TypeError; then
   sig.as_value().init and ctx.get(sig[path]) for every path *)
Definition k_siginit (l : layout) (i : xinit) (paths : list (list Z)) : list Z :=
  match xlayout_const l i with
  | Okz v => 1 :: v :: flat_map (fun p => enc (view_path l v p)) paths
  | Errz _ => [0; 4]
  end.

(* ---- designs assigning through views: the model's value of the signal after every step, then (after -7) the
   rows RtlilSem.run computes on the document read from the emitted RTLIL (status, observed output port) *)
From V.Model Require Export RtlilSem.     (* its `ones` / `sstep` shadow Data's: qualified below *)
Definition k_synth (l : layout) (tv : Z) (casgs sasgs : list sasg) (env0 : list Z) (steps : list Data.sstep)
                   (d : doc) (port : nat * Z) (init_ins : list (nat * Z)) (stim : list (list (nat * Z))) : list Z :=
  synth l tv casgs sasgs env0 steps ++ [-7] ++ run d [Some ([], fst port, snd port)] init_ins stim.
(* the same without a document (conversion or reading failed: the harness puts the reason after -8) *)
Definition k_synth_nodoc (l : layout) (tv : Z) (casgs sasgs : list sasg) (env0 : list Z) (steps : list Data.sstep)
                         (why : list Z) : list Z :=
  synth l tv casgs sasgs env0 steps ++ [-8] ++ why.

(* FlexibleLayout(size, fields): accepted / ValueError *)
Definition k_flexnew (sz : Z) (fs : list (Z * (Z * layout))) : list Z :=
  if flex_new_ok sz fs then [1] else [0; 3].

(* results with the kind of the returned object: 0 int, 1 lib.data.Const of the field's layout, 2 enumeration member *)
Definition tagc (sub : layout) : Z := match sub with Leaf _ => 0 | ELeaf _ _ _ => 2 | _ => 1 end.
Definition tagv (sub : layout) : Z := match sub with Leaf _ => 0 | ELeaf _ vw _ => if vw then 2 else 0 | _ => 1 end.
Definition enct (tag : layout -> Z) (r : res) : list Z :=
  match r with Ok sub v => [1; tag sub; v] | Err c => [0; c] end.
Definition k_const_t (l : layout) (i : init) (paths : list (list Z)) : list Z :=
  encz (layout_const l i) ++
  match layout_const l i with
  | Okz v => flat_map (fun p => enct tagc (const_path l v p)) paths
  | _ => []
  end.
Definition k_view_t (l : layout) (tv : Z) (paths : list (list Z)) : list Z :=
  flat_map (fun p => enct tagv (view_path l tv p)) paths.
(* Signal(layout, init=...) also formats the layout (every layout formats) *)
Definition k_siginit_f (l : layout) (i : xinit) (paths : list (list Z)) : list Z := k_siginit l i paths.

(* FlagView operator with an operand that is neither a FlagView nor a member of the same class: TypeError *)
Definition k_flag_fvbad : list Z := [3].

(* RunC19.v — executable wrappers (model answers as lists of integers) for the C19 cases. *)
From Coq Require Import ZArith List Bool.
From V.Model Require Export Res.
From V.Harness Require Import Run.
Import ListNotations.
Open Scope Z_scope.

Definition zlen {A} (l : list A) : Z := Z.of_nat (length l).
Definition enc_dir (d : dirs) : Z := match d with Di => 0 | Do => 1 | Doe => 2 | Dio => 3 end.
Definition enc_err (e : err) : Z :=
  match e with EResource RConflict => 1 | EType => 2 | EValue => 3 | EName => 4 | EHang => 5
  | EResource RNoSuch => 6 | EResource RAgain => 7 end.
Definition enc_path (p : path) : list Z := [fst (fst p); snd (fst p); zlen (snd p)] ++ snd p.
Definition enc_alist (a : alist) : list Z := zlen a :: concat (map (fun kv => [fst kv; snd kv]) a).
Definition enc_zl (l : list Z) : list Z := zlen l :: l.
Definition enc_port (p : port) : list Z :=
  enc_path (pt_path p) ++ [b2l (pt_diff p); b2l (pt_inv p); enc_dir (pt_dir p)]
  ++ enc_zl (pt_p p) ++ enc_zl (pt_n p) ++ enc_alist (pt_attrs p).
Definition enc_lval (l : lval) : list Z :=
  [3; lv_name l; b2l (lv_isport l)] ++ enc_port (lv_port l)
  ++ (if lv_isport l then [] else [pn_width (lv_pin l); enc_dir (pn_dir (lv_pin l)); pn_xdr (lv_pin l)]
                                  ++ enc_path (pn_path (lv_pin l))).
Fixpoint enc_value (v : value) : list Z :=
  match v with
  | VLeaf l => enc_lval l
  | VGroup nm vs => [2; nm; zlen vs] ++
      (fix go (ss : list value) : list Z := match ss with [] => [] | s :: r => enc_value s ++ go r end) vs
  end.
Definition enc_state (st : state) : list Z :=
  [zlen (requested st)] ++ concat (map (fun k => [fst k; snd k]) (requested st))
  ++ [zlen (phys_reqd st)] ++ concat (map (fun e => fst e :: enc_path (snd e)) (phys_reqd st))
  ++ [zlen (io_clocks st)] ++ concat (map (fun e => enc_path (fst (fst e)) ++ [snd (fst e); snd e]) (io_clocks st))
  ++ [zlen (pins st)].

(* digest of an encoded state (the harness computes the same polynomial over the real manager's state) *)
Definition digest (l : list Z) : Z :=
  fold_left (fun h x => (h * 1000003 + x + 7) mod 2305843009213693951) l 0.

(* One history: per request [1; value...] or [-1; error]; after every request the sizes and the digest of
   the whole allocation state; at the end the whole state.  [-3] = fuel of the model exhausted (never happens:
   Proofs/ResP.v resolve_terminates); the implementation side reports [-2] if a request did not return.
   Errors: 1 ResourceError(pin conflict) 6 ResourceError(does not exist) 7 ResourceError(already requested)
   2 TypeError 3 ValueError 4 NameError. *)
Fixpoint run_hist (t : table) (cm : connmap) (st : state) (h : list req) : list Z :=
  match h with
  | [] => 9 :: enc_state st
  | q :: r =>
    match request t cm st q with
    | (_, Error EHang) => [-3]
    | (st', Error e) => [-1; enc_err e; zlen (phys_reqd st'); zlen (io_clocks st'); digest (enc_state st')]
                        ++ run_hist t cm st' r
    | (st', Ok v) => 1 :: enc_value v ++ [zlen (phys_reqd st'); zlen (io_clocks st'); digest (enc_state st')]
                     ++ run_hist t cm st' r
    end
  end.
(* ResourceManager(resources, connectors): NameError for two resources with the same name and number *)
Definition k_hist (t : table) (cm : connmap) (h : list req) : list Z :=
  if table_dup t then [-1; 4; 0] else run_hist t cm init_state h.

(* Pins.map_names alone: [1; pins...] | [-1; 4] NameError (dangling or cyclic) | [-3] fuel exhausted (never) *)
Definition k_map (cm : connmap) (ns : list pname) : list Z :=
  match map_names (cm_fuel cm) cm ns with
  | LOk l => 1 :: l
  | LMissing | LCycle => [-1; 4]
  | LLoop => [-3]
  end.

(* Platform.build(do_build=False): per design request 0 (granted) or the error code; then [-1; error] if
   create_missing_domain's request of default_clk / default_rst is refused, else the constraint file in file
   order: entries (port path, suffix, bit or -1, pin, attrs), then the port clock constraints *)
Definition enc_constr (c : constr) : list Z :=
  enc_path (fst (c_port c)) ++ [snd (c_port c); match c_bit c with Some k => k | None => -1 end; c_pin c]
  ++ enc_alist (c_attrs c).
Definition oz (k : Z) : option Z := if k <? 0 then None else Some k.
Definition k_build (v : vendor) (t : table) (cm : connmap) (h : list req) (dclk drst : Z) (unused : list path)
           (raw : list (Z * Z)) : list Z :=
  if table_dup t then [-1; 4; 0] else
  let (outs, r) := build v t cm h (oz dclk) (oz drst) unused (map (fun kw => (Z.to_nat (fst kw), snd kw)) raw) in
  zlen outs :: map (fun o => match snd o with Ok _ => 0 | Error e => enc_err e end) outs
  ++ match r with
     | inl e => [-1; enc_err e]
     | inr pl => [1; zlen (pl_constraints pl)] ++ concat (map enc_constr (pl_constraints pl))
                 ++ [zlen (pl_clocks pl)]
                 ++ concat (map (fun e => enc_path (fst (fst e)) ++ [snd (fst e); snd e]) (pl_clocks pl))
     end.

(* RunC19.v — executable wrappers (model answers as lists of integers) for the C19 cases. *)
From Coq Require Import ZArith List Bool.
From V.Model Require Export Res.
From V.Harness Require Import Run.
Import ListNotations.
Open Scope Z_scope.

Definition zlen {A} (l : list A) : Z := Z.of_nat (length l).
Definition enc_dir (d : dirs) : Z := match d with Di => 0 | Do => 1 | Doe => 2 | Dio => 3 end.
Definition enc_err (e : err) : Z :=
  match e with EResource RConflict => 1 | EType => 2 | EValue => 3 | EName => 4 | EHang => 5
  | EResource RNoSuch => 6 | EResource RAgain => 7 end.
Definition enc_path (p : path) : list Z := [fst (fst p); snd (fst p); zlen (snd p)] ++ snd p.
Definition enc_alist (a : alist) : list Z := zlen a :: concat (map (fun kv => [fst kv; snd kv]) a).
Definition enc_zl (l : list Z) : list Z := zlen l :: l.
Definition enc_port (p : port) : list Z :=
  enc_path (pt_path p) ++ [b2l (pt_diff p); b2l (pt_inv p); enc_dir (pt_dir p)]
  ++ enc_zl (pt_p p) ++ enc_zl (pt_n p) ++ enc_alist (pt_attrs p).
Definition enc_lval (l : lval) : list Z :=
  [3; lv_name l; b2l (lv_isport l)] ++ enc_port (lv_port l)
  ++ (if lv_isport l then [] else [pn_width (lv_pin l); enc_dir (pn_dir (lv_pin l)); pn_xdr (lv_pin l)]
                                  ++ enc_path (pn_path (lv_pin l))).
Fixpoint enc_value (v : value) : list Z :=
  match v with
  | VLeaf l => enc_lval l
  | VGroup nm vs => [2; nm; zlen vs] ++
      (fix go (ss : list value) : list Z := match ss with [] => [] | s :: r => enc_value s ++ go r end) vs
  end.
Definition enc_state (st : state) : list Z :=
  [zlen (requested st)] ++ concat (map (fun k => [fst k; snd k]) (requested st))
  ++ [zlen (phys_reqd st)] ++ concat (map (fun e => fst e :: enc_path (snd e)) (phys_reqd st))
  ++ [zlen (io_clocks st)] ++ concat (map (fun e => enc_path (fst (fst e)) ++ [snd (fst e); snd e]) (io_clocks st))
  ++ [zlen (pins st)].

(* One history: per request [1; value...] or [-1; error]; after every request the sizes of the
   allocation; at the end the whole state.  [-3] = fuel of the model exhausted (never happens:
   Proofs/ResP.v resolve_terminates); the implementation side reports [-2] if a request did not return. *)
Fixpoint run_hist (t : table) (cm : connmap) (st : state) (h : list req) : list Z :=
  match h with
  | [] => 9 :: enc_state st
  | q :: r =>
    match request t cm st q with
    | (_, Error EHang) => [-3]
    | (st', Error e) => [-1; enc_err e; zlen (phys_reqd st'); zlen (io_clocks st')] ++ run_hist t cm st' r
    | (st', Ok v) => 1 :: enc_value v ++ [zlen (phys_reqd st'); zlen (io_clocks st')] ++ run_hist t cm st' r
    end
  end.
Definition k_hist (t : table) (cm : connmap) (h : list req) : list Z := run_hist t cm init_state h.

(* Pins.map_names alone: [1; pins...] | [-1; 4] NameError (dangling or cyclic) | [-3] fuel exhausted (never) *)
Definition k_map (cm : connmap) (ns : list pname) : list Z :=
  match map_names (cm_fuel cm) cm ns with
  | LOk l => 1 :: l
  | LMissing | LCycle => [-1; 4]
  | LLoop => [-3]
  end.

(* constraint view of a granted history: (port path, suffix, bit or -1, pin) per entry, then clocks *)
Definition enc_constr (c : constr) : list Z :=
  enc_path (fst (c_port c)) ++ [snd (c_port c); match c_bit c with Some k => k | None => -1 end; c_pin c]
  ++ enc_alist (c_attrs c).
(* which I/O ports of a granted port the design uses: io / p always; n depending on the vendor's buffers
   (mode 0: never — ECP5; 1: always — Gowin; 2: only for outputs — iCE40) *)
Definition used_ioports (mode : Z) (p : port) : list ioport :=
  filter (fun io => negb (snd (io_name io) =? 2) || (mode =? 1) || ((mode =? 2) && dirs_eqb (pt_dir p) Do))
         (port_ioports p).
Definition k_constraints (t : table) (cm : connmap) (h : list req) (mode : Z) (with_attrs with_clocks : bool) : list Z :=
  let (st, outs) := run t cm h in
  let used := concat (map (fun qv => concat (map (fun l => used_ioports mode (lv_port l)) (leaves (snd qv))))
                          (granted outs)) in
  let cs := port_constraints used in
  let cks := if with_clocks then clock_constraints st else [] in
  [zlen cs] ++ concat (map (fun c => enc_constr (if with_attrs then c else mkC (c_port c) (c_bit c) (c_pin c) [])) cs)
  ++ [zlen cks]
  ++ concat (map (fun e => enc_path (fst (fst e)) ++ [snd (fst e); snd e]) cks).

(* RunC12.v — executable wrappers (model answers as lists of integers) for the C12 cases.

   Parsing integer literals dominates the time Coq spends on a generated case file (about 0.3 ms per
   literal, much more above 62 bits), so stimulus and answers are packed: several cycles per integer,
   each integer below 2^60. *)
From Coq Require Import ZArith List Bool.
From V.Model Require Export Bits Fifo.
From V.Harness Require Import Run.
Import ListNotations.
Open Scope Z_scope.

(* one cycle of stimulus: w_en + 2 * r_en + 4 * w_data   (w_data < 2^(w+3): w + 5 bits) *)
Definition dec_inp (x : Z) : inp := Inp (Z.odd x) (x / 4) (Z.odd (x / 2)).

(* one cycle of outputs:
     w_rdy + 2 * r_rdy + 4 * (level + 32 * (r_data + 2^w * (dw + 256 * dr)))
   with r_data taken as 0 while r_rdy = 0 (unspecified then), dw = (w_level - level) mod 256 and
   dr = (r_level - level) mod 256.  All generated depths are < 32, so the code has w + 7 bits whenever the
   three levels agree (if they do not, the harness' monitor reports it as well). *)
Definition enc_out (w : Z) (o : out) : Z :=
  let v := vis o in
  b2l (w_rdy v) + 2 * b2l (r_rdy v) +
  4 * (level v + 32 * (r_data v + 2 ^ w * ((w_level v - level v) mod 256 + 256 * ((r_level v - level v) mod 256)))).

(* cycles per packed integer *)
Definition per_chunk (w : Z) : nat := Z.to_nat (60 / (w + 7)).

(* little-endian digits of b bits *)
Fixpoint digits (b : Z) (k : nat) (x : Z) : list Z :=
  match k with
  | O => []
  | S k' => x mod 2 ^ b :: digits b k' (x / 2 ^ b)
  end.
Definition unchunk (b : Z) (k n : nat) (chunks : list Z) : list Z :=
  firstn n (flat_map (digits b k) chunks).

Fixpoint pack (b : Z) (xs : list Z) : Z :=
  match xs with
  | [] => 0
  | x :: r => x + 2 ^ b * pack b r
  end.
Fixpoint chunk (b : Z) (k fuel : nat) (xs : list Z) : list Z :=
  match fuel, xs with
  | O, _ => []
  | _, [] => []
  | S f, _ => pack b (firstn k xs) :: chunk b k f (skipn k xs)
  end.

Definition enc_trace (w : Z) (t : list out) : list Z :=
  chunk (w + 7) (per_chunk w) (length t) (map (enc_out w) t).
Definition dec_stim (w n : Z) (chunks : list Z) : list inp :=
  map dec_inp (unchunk (w + 5) (per_chunk w) (Z.to_nat n) chunks).

(* configuration in one integer: width + 16 * (depth + 256 * number of cycles) *)
Definition cfg_w (cfg : Z) : Z := cfg mod 16.
Definition cfg_d (cfg : Z) : Z := (cfg / 16) mod 256.
Definition cfg_n (cfg : Z) : Z := cfg / 4096.

(* the trailing 0 pairs with the verdict of the harness' deque monitor (0 = no complaint) *)
Definition k_sync (cfg : Z) (chunks : list Z) : list Z :=
  let w := cfg_w cfg in
  enc_trace w (sync_run w (cfg_d cfg) (dec_stim w (cfg_n cfg) chunks)) ++ [0].
Definition k_buf (cfg : Z) (chunks : list Z) : list Z :=
  let w := cfg_w cfg in
  enc_trace w (buf_run w (cfg_d cfg) (dec_stim w (cfg_n cfg) chunks)) ++ [0].
(* the bounded-queue specification itself, run as a machine (sanity cross-check) *)
Definition k_queue (cfg : Z) (chunks : list Z) : list Z :=
  let w := cfg_w cfg in
  enc_trace w (q_run w (cfg_d cfg) (dec_stim w (cfg_n cfg) chunks)) ++ [0].
(* constructor acceptance *)
Definition k_ctor (w d : Z) : list Z := [b2l (ctor_ok w d)].

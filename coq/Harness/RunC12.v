(* RunC12.v — executable wrappers (model answers as lists of integers) for the C12 cases.

   Parsing integer literals dominates the time Coq spends on a generated case file (about 0.3 ms per
   literal, much more above 62 bits), so stimulus and answers are packed: several cycles per integer,
   each integer below 2^60. *)
From Coq Require Import ZArith List Bool.
From V.Model Require Export Bits Fifo.
From V.Harness Require Import Run.
Import ListNotations.
Open Scope Z_scope.

(* one cycle of stimulus: w_en + 2 * r_en + 4 * rst + 8 * w_data   (w_data < 2^(w+3): w + 6 bits);
   rst = the domain's synchronous reset in that cycle *)
Definition dec_inp (x : Z) : inp * bool := (Inp (Z.odd x) (x / 8) (Z.odd (x / 2)), Z.odd (x / 4)).

(* one cycle of outputs:
     w_rdy + 2 * r_rdy + 4 * (level + 32 * (r_data + 2^w * (dw + 256 * dr)))
   with r_data taken as 0 while r_rdy = 0 (unspecified then), dw = (w_level - level) mod 256 and
   dr = (r_level - level) mod 256.  All generated depths are < 32, so the code has w + 7 bits whenever the
   three levels agree (if they do not, the harness' monitor reports it as well). *)
Definition enc_out (w : Z) (o : out) : Z :=
  let v := vis o in
  b2l (w_rdy v) + 2 * b2l (r_rdy v) +
  4 * (level v + 32 * (r_data v + 2 ^ w * ((w_level v - level v) mod 256 + 256 * ((r_level v - level v) mod 256)))).

(* cycles per packed integer *)
Definition per_chunk (w : Z) : nat := Z.to_nat (60 / (w + 7)).

(* little-endian digits of b bits *)
Fixpoint digits (b : Z) (k : nat) (x : Z) : list Z :=
  match k with
  | O => []
  | S k' => x mod 2 ^ b :: digits b k' (x / 2 ^ b)
  end.
Definition unchunk (b : Z) (k n : nat) (chunks : list Z) : list Z :=
  firstn n (flat_map (digits b k) chunks).

Fixpoint pack (b : Z) (xs : list Z) : Z :=
  match xs with
  | [] => 0
  | x :: r => x + 2 ^ b * pack b r
  end.
Fixpoint chunk (b : Z) (k fuel : nat) (xs : list Z) : list Z :=
  match fuel, xs with
  | O, _ => []
  | _, [] => []
  | S f, _ => pack b (firstn k xs) :: chunk b k f (skipn k xs)
  end.

Definition enc_trace (w : Z) (t : list out) : list Z :=
  chunk (w + 7) (per_chunk w) (length t) (map (enc_out w) t).
Definition dec_stim (w n : Z) (chunks : list Z) : list (inp * bool) :=
  map dec_inp (unchunk (w + 6) (per_chunk w) (Z.to_nat n) chunks).

(* configuration in one integer: width + 16 * (depth + 256 * number of cycles) *)
Definition cfg_w (cfg : Z) : Z := cfg mod 16.
Definition cfg_d (cfg : Z) : Z := (cfg / 16) mod 256.
Definition cfg_n (cfg : Z) : Z := cfg / 4096.

(* internal registers and memory rows, as the harness reads them from the elaborated design:
   SyncFIFO: produce, consume, level, rows;  SyncFIFOBuffered(depth >= 2): produce, consume, inner_level,
   r_rdy, read-port data register, rows;  SyncFIFOBuffered(1): level, r_data;  depth 0: nothing *)
Definition enc_core (d : Z) (c : core) : list Z :=
  if d =? 0 then [] else [produce c; consume c; lvl c] ++ rows c.
Definition enc_bstate (d : Z) (s : bstate) : list Z :=
  if d =? 0 then []
  else if d =? 1 then [blevel s; rdata s]
  else [produce (inner s); consume (inner s); lvl (inner s); b2l (rrdy s); rdata s] ++ rows (inner s).

(* the trailing 0 pairs with the verdict of the harness' deque monitor (0 = no complaint) *)
Definition k_sync (cfg : Z) (chunks : list Z) : list Z :=
  let w := cfg_w cfg in
  enc_trace w (sync_run_r w (cfg_d cfg) (dec_stim w (cfg_n cfg) chunks)) ++ [0].
Definition k_buf (cfg : Z) (chunks : list Z) : list Z :=
  let w := cfg_w cfg in
  enc_trace w (buf_run_r w (cfg_d cfg) (dec_stim w (cfg_n cfg) chunks)) ++ [0].
(* ... followed by the internal state after the last cycle *)
Definition k_sync_st (cfg : Z) (chunks : list Z) : list Z :=
  let w := cfg_w cfg in let d := cfg_d cfg in
  k_sync cfg chunks ++ enc_core d (sync_reach_r w d (dec_stim w (cfg_n cfg) chunks)).
Definition k_buf_st (cfg : Z) (chunks : list Z) : list Z :=
  let w := cfg_w cfg in let d := cfg_d cfg in
  k_buf cfg chunks ++ enc_bstate d (buf_reach_r w d (dec_stim w (cfg_n cfg) chunks)).

(* wide / deep configurations, not packed: stimulus one integer per cycle; answer per cycle
   [w_rdy + 2 * r_rdy + 4 * (level + 4096 * (w_level + 4096 * r_level)); r_data (0 while r_rdy = 0)],
   then the monitor verdict, then the internal state *)
Definition enc_out_raw (o : out) : list Z :=
  let v := vis o in
  [b2l (w_rdy v) + 2 * b2l (r_rdy v) + 4 * (level v + 4096 * (w_level v + 4096 * r_level v)); r_data v].
Definition k_sync_raw (w d : Z) (xs : list Z) : list Z :=
  flat_map enc_out_raw (sync_run_r w d (map dec_inp xs)) ++ [0] ++ enc_core d (sync_reach_r w d (map dec_inp xs)).
Definition k_buf_raw (w d : Z) (xs : list Z) : list Z :=
  flat_map enc_out_raw (buf_run_r w d (map dec_inp xs)) ++ [0] ++ enc_bstate d (buf_reach_r w d (map dec_inp xs)).

(* the bounded-queue specification itself, run as a machine without resets (sanity cross-check) *)
Definition k_queue (cfg : Z) (chunks : list Z) : list Z :=
  let w := cfg_w cfg in
  enc_trace w (q_run w (cfg_d cfg) (map fst (dec_stim w (cfg_n cfg) chunks))) ++ [0].
(* constructor acceptance: FIFOInterface.__init__ raises TypeError unless both are non-negative ints;
   `ok` = both arguments are Python ints (the harness passes 0 for an argument that is not) *)
Definition k_ctor (w d : Z) : list Z := [b2l (ctor_ok w d)].
Definition k_ctor_nonint (w d : Z) : list Z := [0].

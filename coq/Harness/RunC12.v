(* RunC12.v — executable wrappers (model answers as lists of integers) for the C12 cases. *)
From Coq Require Import ZArith List Bool.
From V.Model Require Export Bits Fifo.
From V.Harness Require Import Run.
Import ListNotations.
Open Scope Z_scope.

(* one cycle of stimulus packed in one integer: w_en + 2 * r_en + 4 * w_data *)
Definition dec_inp (x : Z) : inp := Inp (Z.odd x) (x / 4) (Z.odd (x / 2)).

(* one cycle of outputs packed in one integer (keeps the generated case files small):
   w_rdy + 2 * r_rdy + 4 * (level + 256 * (w_level + 256 * (r_level + 256 * r_data))),
   r_data taken as 0 while r_rdy = 0 (unspecified then); levels are < 256 for every generated depth *)
Definition enc_out (o : out) : list Z :=
  let v := vis o in
  [b2l (w_rdy v) + 2 * b2l (r_rdy v) + 4 * (level v + 256 * (w_level v + 256 * (r_level v + 256 * r_data v)))].

Definition enc_trace (t : list out) : list Z := flat_map enc_out t.

(* the trailing 0 pairs with the verdict of the harness' deque monitor (0 = no complaint) *)
Definition k_syncfifo (w d : Z) (xs : list Z) : list Z :=
  enc_trace (sync_run w d (map dec_inp xs)) ++ [0].
Definition k_buffered (w d : Z) (xs : list Z) : list Z :=
  enc_trace (buf_run w d (map dec_inp xs)) ++ [0].
(* the bounded-queue specification itself, run as a machine (used for a sanity cross-check) *)
Definition k_queue (w d : Z) (xs : list Z) : list Z :=
  enc_trace (q_run w d (map dec_inp xs)) ++ [0].
(* constructor acceptance *)
Definition k_ctor (w d : Z) : list Z := [b2l (ctor_ok w d)].

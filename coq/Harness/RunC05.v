(* RunC05.v — executable wrappers for assignment cases (C05 writes, C02 assignment clause). *)
From Coq Require Import ZArith List Bool.
From V.Model Require Export Bits Shape Ast Denote PyRTL PyEval Stmt.
From V.Harness Require Import Run.
From V.Harness Require Export RunC01.
Import ListNotations.
Open Scope Z_scope.

(* signals 0..n-1 are the target's signals with the given initial values; inputs follow *)
Definition init_env (inits : list Z) : env := fun i => nth i inits 0.
Definition read_sigs (n : nat) (e : env) : list Z := map e (seq 0 n).

(* comb circuit `target.eq(rhs)`: next = init; statement; all target signals committed *)
Definition k_assign (inits : list Z) (target rhs : expr) (stims : list (list Z)) : list Z :=
  if wf_lhs target && wf_expr rhs then
    1 :: flat_map (fun vs =>
      let curr := env_of vs in
      read_sigs (length inits)
        (assign_rtl curr target (rsign (shape_of rhs) (eval_rtl curr rhs)) (init_env inits))) stims
  else [0].

(* testbench ctx.set(target, v) on signals holding their initial values; selectors come from the stimulus *)
Definition k_tbset (inits : list Z) (target : expr) (v : Z) (stims : list (list Z)) : list Z :=
  if wf_lhs target then
    1 :: flat_map (fun vs =>
      let curr := fun i => if Nat.ltb i (length inits) then init_env inits i else env_of vs i in
      read_sigs (length inits) (tb_set curr target v (init_env inits))) stims
  else [0].

(* the per-bit SPEC rendered executably: bit b of signal i takes bit (wr ...) of the value, else keeps *)
Definition spec_assign (curr : env) (target : expr) (arg : Z) (shapes : list shape) (inits : list Z) : list Z :=
  map (fun i =>
    let s := nth i shapes (Sh 0 false) in
    let old := nth i inits 0 in
    let raw := fold_right (fun b acc =>
                 let bit := match wr curr target i (Z.of_nat b) with
                            | Some k => Z.testbit arg k
                            | None => Z.testbit old (Z.of_nat b)
                            end in
                 (if bit then 2 ^ Z.of_nat b else 0) + acc) 0 (seq 0 (Z.to_nat (width s))) in
    norm s raw) (seq 0 (length inits)).

Definition k_assign_spec (shapes : list shape) (inits : list Z) (target rhs : expr) (stims : list (list Z)) : list Z :=
  if wf_lhs target && wf_expr rhs then
    1 :: flat_map (fun vs =>
      let curr := env_of vs in
      spec_assign curr target (denote curr rhs) shapes inits) stims
  else [0].

(* ================= added after the coverage audit ================= *)
From V.Model Require Data TbCast.      (* not imported: Data.upd / Data.slice ... must not shadow Stmt's names for RunC02 *)

(* ctx.set(target, v) observed in full: every signal (the target's AND the selectors'), then the rows of the memories
   that were NOT written (`others`: their initial contents, which must survive), then the data outputs of the comb read
   ports addressing the written rows of memories owned by the design (`ports`: the written row's index among the signals) *)
Definition k_tbset_x (inits : list Z) (nall : nat) (target : expr) (v : Z) (stims : list (list Z))
                     (others : list Z) (ports : list nat) : list Z :=
  if wf_lhs target then
    1 :: flat_map (fun vs =>
      let curr := fun i => if Nat.ltb i (length inits) then init_env inits i else env_of vs i in
      let nx := tb_set curr target v curr in
      read_sigs nall nx ++ others ++ map nx ports) stims
  else [0].

(* ctx.get(e) where some leaves of e are memory rows (no circuit can read those): the testbench evaluator alone *)
Definition k_read (e : expr) (stims : list (list Z)) : list Z :=
  if wf_expr e then
    let s := shape_of e in
    1 :: width s :: b2l (sgn s) :: flat_map (fun vs => [eval_tb (env_of vs) e; denote (env_of vs) e]) stims
  else [0; build_err e].

(* shape-castable signals: exception classes as in Data.v (1 KeyError, 2 IndexError, 3 ValueError, 4 TypeError) *)
Definition resz2l (r : Data.resz) : list Z := match r with Data.Okz v => [1; v] | Data.Errz c => [0; c] end.
(* sig = Signal(layout): ctx.set(sig, init) -> [1; ctx.get(sig).as_bits() as [1; bits]; ctx.get(sig.as_value())] or [0; class];
   then ctx.set(sig.as_value(), raw); ctx.get(sig).as_bits() *)
Definition k_sc_layout (l : Data.layout) (i : Data.init) (raw : Z) : list Z :=
  (match TbCast.tb_set_layout l i with
   | Data.Okz st => 1 :: resz2l (Data.as_bits (TbCast.tb_get_layout l st)) ++ [st]
   | Data.Errz c => [0; c]
   end) ++ resz2l (Data.as_bits (TbCast.tb_get_layout l (TbCast.sig_store (TbCast.layout_sig_shape l) raw))).
(* sig = Signal(E), E a shaped lib.enum.Enum: ctx.set(sig, i) -> [1; raw value; ctx.get(sig) as [1; member value]] or [0; class];
   then ctx.set(sig.as_value(), raw); ctx.get(sig) *)
Definition k_sc_enum (s : shape) (ms : list Z) (i raw : Z) : list Z :=
  (match TbCast.tb_set_enum s ms i with
   | Data.Okz st => 1 :: st :: resz2l (TbCast.tb_get_enum ms st)
   | Data.Errz c => [0; c]
   end) ++ resz2l (TbCast.tb_get_enum ms (TbCast.sig_store s raw)).
(* sig = Signal(Offset(w, k)): ctx.set(sig, obj) -> raw value; ctx.get(sig) *)
Definition k_sc_offset (w k obj : Z) : list Z :=
  let st := TbCast.tb_set_offset w k obj in [st; TbCast.tb_get_offset k st].

(* ctx.set(target, v) on a target that may contain nodes that are not assignable: per stimulus [0; 2] when the write reaches
   such a node (ValueError), else 1 :: the target's signals after the write *)
Definition k_tbset_err (inits : list Z) (target : expr) (v : Z) (stims : list (list Z)) : list Z :=
  if wf_expr target then
    1 :: flat_map (fun vs =>
      let curr := fun i => if Nat.ltb i (length inits) then init_env inits i else env_of vs i in
      if TbCast.tb_set_err curr target then [0; 2]
      else 1 :: read_sigs (length inits) (tb_set curr target v curr)) stims
  else [0; build_err target].

(* RunC05.v — executable wrappers for assignment cases (C05 writes, C02 assignment clause). *)
From Coq Require Import ZArith List Bool.
From V.Model Require Export Bits Shape Ast Denote PyRTL PyEval Stmt.
From V.Harness Require Import Run.
From V.Harness Require Export RunC01.
Import ListNotations.
Open Scope Z_scope.

(* signals 0..n-1 are the target's signals with the given initial values; inputs follow *)
Definition init_env (inits : list Z) : env := fun i => nth i inits 0.
Definition read_sigs (n : nat) (e : env) : list Z := map e (seq 0 n).

(* comb circuit `target.eq(rhs)`: next = init; statement; all target signals committed *)
Definition k_assign (inits : list Z) (target rhs : expr) (stims : list (list Z)) : list Z :=
  if wf_lhs target && wf_expr rhs then
    1 :: flat_map (fun vs =>
      let curr := env_of vs in
      read_sigs (length inits)
        (assign_rtl curr target (rsign (shape_of rhs) (eval_rtl curr rhs)) (init_env inits))) stims
  else [0].

(* testbench ctx.set(target, v) on signals holding their initial values; selectors come from the stimulus *)
Definition k_tbset (inits : list Z) (target : expr) (v : Z) (stims : list (list Z)) : list Z :=
  if wf_lhs target then
    1 :: flat_map (fun vs =>
      let curr := fun i => if Nat.ltb i (length inits) then init_env inits i else env_of vs i in
      read_sigs (length inits) (tb_set curr target v (init_env inits))) stims
  else [0].

(* the per-bit SPEC rendered executably: bit b of signal i takes bit (wr ...) of the value, else keeps *)
Definition spec_assign (curr : env) (target : expr) (arg : Z) (shapes : list shape) (inits : list Z) : list Z :=
  map (fun i =>
    let s := nth i shapes (Sh 0 false) in
    let old := nth i inits 0 in
    let raw := fold_right (fun b acc =>
                 let bit := match wr curr target i (Z.of_nat b) with
                            | Some k => Z.testbit arg k
                            | None => Z.testbit old (Z.of_nat b)
                            end in
                 (if bit then 2 ^ Z.of_nat b else 0) + acc) 0 (seq 0 (Z.to_nat (width s))) in
    norm s raw) (seq 0 (length inits)).

Definition k_assign_spec (shapes : list shape) (inits : list Z) (target rhs : expr) (stims : list (list Z)) : list Z :=
  if wf_lhs target && wf_expr rhs then
    1 :: flat_map (fun vs =>
      let curr := env_of vs in
      spec_assign curr target (denote curr rhs) shapes inits) stims
  else [0].

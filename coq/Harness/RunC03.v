(* RunC03.v — executable wrappers for C03: transformed fragments (encoded as integer lists) and event traces. *)
From Coq Require Import ZArith List Bool.
From V.Model Require Export Bits Shape Ast Denote PyRTL PyEval Stmt Process Xfrm.
From V.Harness Require Import Run.
Import ListNotations.
Open Scope Z_scope.

Definition SD (w : Z) (sg : bool) (ini : Z) (rl : bool) : sigdesc :=
  {| sd_shape := Sh w sg; sd_init := ini; sd_reset_less := rl |}.
Definition DC (clk : nat) (pos : bool) (rst : option nat) (asy : bool) : domcfg :=
  {| d_clk := clk; d_pos := pos; d_rst := rst; d_async := asy |}.
Definition mk_tab (l : list sigdesc) : sigtab := fun i => nth i l (SD 0 false 0 false).
(* entry 0 of the list is a placeholder for "comb" *)
Definition mk_doms (l : list domcfg) : domtab := fun d => nth d l (DC 0 true None false).

(* ---------- prefix encoding of terms (mirrored by harness/props/c03.py) ---------- *)
Definition zn (n : nat) : Z := Z.of_nat n.
Definition op1_code (o : op1) : Z :=
  match o with ONot => 0 | ONeg => 1 | OBool => 2 | ORor => 3 | ORand => 4 | ORxor => 5 | OU => 6 | OS => 7 end.
Definition op2_code (o : op2) : Z :=
  match o with OAdd => 0 | OSub => 1 | OMul => 2 | ODiv => 3 | OMod => 4 | OAnd => 5 | OOr => 6 | OXor => 7
             | OShl => 8 | OShr => 9 | OEq => 10 | ONe => 11 | OLt => 12 | OLe => 13 | OGt => 14 | OGe => 15 end.
Definition enc_pattern (p : pattern) : list Z :=
  zn (length p) :: map (fun b => match b with Some false => 0 | Some true => 1 | None => 2 end) p.
Definition enc_pats (ps : option (list pattern)) : list Z :=
  match ps with None => [0] | Some l => 1 :: zn (length l) :: flat_map enc_pattern l end.

Fixpoint enc_expr (e : expr) : list Z :=
  match e with
  | EConst v s => [0; v; width s; b2l (sgn s)]
  | ESig i s => [1; zn i; width s; b2l (sgn s)]
  | EOp1 o a => 2 :: op1_code o :: enc_expr a
  | EOp2 o a b => 3 :: op2_code o :: enc_expr a ++ enc_expr b
  | ESlice a lo hi => 4 :: lo :: hi :: enc_expr a
  | EPart a off w st => 5 :: w :: st :: enc_expr a ++ enc_expr off
  | ECat parts => 6 :: zn (length parts) :: flat_map enc_expr parts
  | ESwitch t cs => 7 :: zn (length cs) :: enc_expr t ++ flat_map (fun c => enc_pats (fst c) ++ enc_expr (snd c)) cs
  end.

Fixpoint enc_stmt (s : stmt) : list Z :=
  match s with
  | SAssign l r => 8 :: enc_expr l ++ enc_expr r
  | SSwitch t cs =>
      9 :: zn (length cs) :: enc_expr t ++
      (fix go (cs : list (option (list pattern) * list stmt)) : list Z :=
         match cs with
         | [] => []
         | c :: cs' => enc_pats (fst c) ++ zn (length (snd c)) ::
                       (fix run (ss : list stmt) : list Z :=
                          match ss with [] => [] | s' :: ss' => enc_stmt s' ++ run ss' end) (snd c) ++ go cs'
         end) cs
  end.

Definition enc_mem (m : meminst) : list Z :=
  11 :: zn (length (mi_wports m)) ::
  flat_map (fun p => zn (wp_dom p) :: enc_expr (wp_addr p) ++ enc_expr (wp_data p) ++ enc_expr (wp_en p)) (mi_wports m) ++
  zn (length (mi_rports m)) ::
  flat_map (fun p => zn (rp_dom p) :: enc_expr (rp_addr p) ++ enc_expr (rp_data p) ++ enc_expr (rp_en p) ++
                     zn (length (rp_transp p)) :: map zn (rp_transp p)) (mi_rports m).

Fixpoint enc_frag (f : frag) : list Z :=
  match f with
  | Frag st ms subs =>
      10 :: zn (length st) ::
      flat_map (fun e => zn (fst e) :: zn (length (snd e)) :: flat_map enc_stmt (snd e)) st ++
      zn (length ms) :: flat_map enc_mem ms ++
      zn (length subs) :: flat_map enc_frag subs
  end.

(* structural: the transformed fragment tree *)
Definition k_xfrm (tab : list sigdesc) (t : ftree) : list Z := enc_frag (elab (mk_tab tab) t).

(* the LHS keys / masks / chunks of a statement list (white-box tie of the collector itself) *)
Definition k_chunks (tab : list sigdesc) (ss : list stmt) : list Z :=
  flat_map (fun i => zn i :: stmts_mask ss i ::
              flat_map (fun c => [fst c; match snd c with Some h => h | None => -1 end])
                       (chunks (width (sd_shape (mk_tab tab i))) (stmts_mask ss i)))
           (lhs_keys ss).

(* observable: values of the signals `reads` initially and after every event *)
Definition trace_with (stp : design -> event -> env -> env) (tab : list sigdesc) (doms : list domcfg)
  (t : ftree) (reads : list nat) (evs : list event) : list Z :=
  let D := mk_design (mk_tab tab) (mk_doms doms) (elab (mk_tab tab) t) (length tab) in
  let e0 := init_env D in
  flat_map (fun en => map en reads) (e0 :: run_with stp D evs e0).
Definition k_trace := trace_with step.
Definition k_trace_spec := trace_with step_spec.

(* designs with memories: the signals `reads` and every row of every memory, initially and after every event *)
Definition k_mtrace (tab : list sigdesc) (doms : list domcfg) (t : ftree) (reads : list nat) (evs : list event) : list Z :=
  let f := elab (mk_tab tab) t in
  let D := mk_design (mk_tab tab) (mk_doms doms) f (length tab) in
  let ms := frag_mems f in
  let s0 := minit D ms in
  flat_map (fun s => map (fst s) reads ++ concat (snd s)) (s0 :: mrun D ms evs s0).

(* ---------- late-bound signals, transformer / prepare errors: answers start with 1, or are [-1; code]
   (code 1 AssertionError, 2 DomainError) ---------- *)
Definition k_xfrm_cs (base : nat) (tab : list sigdesc) (t : ftree) : list Z :=
  match elab_cs base (mk_tab tab) t with
  | Some f => 1 :: enc_frag f
  | None => [-1; 1]
  end.

Definition lowered (base : nat) (tab : list sigdesc) (doms : list domcfg) (f : frag) : design * list meminst :=
  ({| g_tab := mk_tab tab; g_doms := mk_doms doms;
      g_procs := map (lower_entry base (mk_doms doms)) (flatten f); g_nsig := length tab |},
   map (lower_mem base (mk_doms doms)) (frag_mems f)).

Definition with_design (base ndom : nat) (tab : list sigdesc) (doms : list domcfg) (t : ftree)
  (k : design -> list meminst -> list Z) : list Z :=
  match elab_cs base (mk_tab tab) t with
  | None => [-1; 1]
  | Some f =>
      let err := prepare_error base ndom (mk_doms doms) f in
      if err =? 0 then let dm := lowered base tab doms f in 1 :: k (fst dm) (snd dm) else [-1; err]
  end.

Definition trace_of (stp : design -> event -> env -> env) (reads : list nat) (evs : list event) (D : design) : list Z :=
  let e0 := init_env D in
  flat_map (fun en => map en reads) (e0 :: run_with stp D evs e0).

Definition k_trace_cs (base ndom : nat) tab doms t reads evs : list Z :=
  with_design base ndom tab doms t (fun D _ => trace_of step reads evs D).
(* spec stream: the faithful trace followed by the spec trace (a listed finding must leave the first half exact) *)
Definition k_trace_both (base ndom : nat) tab doms t reads evs : list Z :=
  with_design base ndom tab doms t (fun D _ => trace_of step reads evs D ++ trace_of step_spec reads evs D).
Definition k_mtrace_cs (base ndom : nat) tab doms t reads evs : list Z :=
  with_design base ndom tab doms t (fun D ms =>
    let s0 := minit D ms in
    flat_map (fun s => map (fst s) reads ++ concat (snd s)) (s0 :: mrun D ms evs s0)).

(* domain scoping (case kind d): the visitor's answer for every late-bound use, pre-order; -1 = unresolved *)
From V.Model Require Export DomScope.
Definition k_domscope (t : dtree) : list Z :=
  map (fun o => match o with Some i => Z.of_nat i | None => (-1)%Z end) (prepare_resolve t).

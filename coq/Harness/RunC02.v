(* RunC02.v — executable wrappers for designs written in the Module DSL (several modules, comb + any number of clock
   domains).  The lowering (If/Switch/FSM, pattern normalisation, state encoding, register shape and init) and the
   simulation loop are the model's (Model/DslRaw.v); nothing is lowered here. *)
From Coq Require Import ZArith List Bool.
From V.Model Require Export Bits Shape Ast Denote PyRTL PyEval Stmt Process Derived Dsl DslRaw DslAcyc.
From V.Harness Require Import Run.
Import ListNotations.
Open Scope Z_scope.

Definition SD (w : Z) (sg : bool) (init : Z) (rl : bool) : sigdesc := mk_sd (Sh w sg) init rl.
Definition FUEL : nat := 16.

(* a design written in the DSL: lowered and simulated by the model *)
Definition k_design (sigs : list sigdesc) (doms : list domdesc) (mods : list (list ritem))
    (evs : list (list (nat * Z))) : list Z := dsl_design FUEL sigs doms mods evs.

(* the same with the statements as lowered by the real Module (serialised from the elaborated fragments) *)
Definition k_stmts (sigs : list sigdesc) (doms : list domdesc) (mods : design) (evs : list (list (nat * Z))) : list Z :=
  match run_design FUEL (length sigs) (base_tab sigs) doms mods evs with
  | None => [2]
  | Some tr => 1 :: tr
  end.

(* SPEC rendering: per-bit "last active assignment wins" straight from dactive / last_writer-style search *)
Fixpoint last_writer_x (curr : env) (al : list (expr * expr)) (i : nat) (b : Z) : option (Z * expr) :=
  match al with
  | [] => None
  | a :: al' =>
      match last_writer_x curr al' i b with
      | Some x => Some x
      | None => match wr curr (fst a) i b with Some k => Some (k, snd a) | None => None end
      end
  end.

Definition spec_value (s : shape) (bitf : Z -> bool) : Z :=
  norm s (fold_right (fun b acc => (if bitf (Z.of_nat b) then 2 ^ Z.of_nat b else 0) + acc) 0 (seq 0 (Z.to_nat (width s)))).

(* comb-only single-module design, spec: every comb-driven signal = init overridden by the active assignments
   (evaluated in the settled state) *)
Definition k_comb_spec_gen (check_wf : bool) (sigs : list sigdesc) (prog : list rstmt) (driven : list nat)
    (evs : list (list (nat * Z))) : list Z :=
  match rproj_list None 0 prog with
  | inr e => [0; e]
  | inl comb =>
    if negb check_wf || forallb wf_dstmt comb then
      let n := length sigs in
      let tab := base_tab sigs in
      let mods : design := [[map lower comb]] in
      let check (st : slots) : list Z :=
        let curr := s_curr st in
        let al := flat_map (dactive curr) comb in
        map (fun i =>
               let s := sd_shape (tab i) in
               spec_value s (fun b => match last_writer_x curr al i b with
                                      | Some (k, r) => Z.testbit (denote curr r) k
                                      | None => Z.testbit (sd_init (tab i)) b
                                      end)) driven in
      let fix go (st : slots) (evs : list (list (nat * Z))) : list Z :=
        match evs with
        | [] => []
        | ev :: evs' => let st' := fst (step FUEL n tab [] mods st ev) in check st' ++ go st' evs'
        end in
      let st0 := fst (settle FUEL n tab mods (init_slots tab)) in
      1 :: check st0 ++ go st0 evs
    else [0; 0]
  end.

Definition k_comb_spec := k_comb_spec_gen true.

(* targets that name a signal twice (no linearity check).  Two answers separated by -99:
   the per-bit specification (= the netlist and testbench semantics), and the simulator's read-modify-write
   semantics (assign_rtl, _LHSValueCompiler) — they differ exactly in known finding F9 *)
Definition k_comb_rmw (sigs : list sigdesc) (prog : list rstmt) (driven : list nat) (evs : list (list (nat * Z))) : list Z :=
  match rproj_list None 0 prog with
  | inr e => [0; e]
  | inl comb =>
      let n := length sigs in
      let tab := base_tab sigs in
      let mods : design := [[map lower comb]] in
      let rd (st : slots) : list Z := map (s_curr st) driven in
      let fix go (st : slots) (evs : list (list (nat * Z))) : list Z :=
        match evs with
        | [] => []
        | ev :: evs' => let st' := fst (step FUEL n tab [] mods st ev) in rd st' ++ go st' evs'
        end in
      let st0 := fst (settle FUEL n tab mods (init_slots tab)) in
      1 :: rd st0 ++ go st0 evs
  end.
Definition k_comb_alias (sigs : list sigdesc) (prog : list rstmt) (driven : list nat) (evs : list (list (nat * Z))) : list Z :=
  k_comb_spec_gen false sigs prog driven evs ++ [-99] ++ k_comb_rmw sigs prog driven evs.

(* the decidable "no combinational loop" check (Model/DslAcyc.v) on the lowered comb statements of a design, with the
   ranking the model computes: [ok; largest rank], [-1] if the design does not build *)
Definition k_acyclic (sigs : list sigdesc) (doms : list domdesc) (mods : list (list ritem)) : list Z :=
  match res_map (lower_module (S (length doms))) mods with
  | inr _ => [-1]
  | inl lows =>
      let n := (length sigs + length (flat_map l_sigs lows))%nat in
      let '(ok, R) := acyclic_auto n (map l_doms lows) in [b2l ok; Z.of_nat R]
  end.

(* RunC02.v — executable wrappers for DSL-built single-module designs (comb + one sync domain). *)
From Coq Require Import ZArith List Bool.
From V.Model Require Export Bits Shape Ast Denote PyRTL PyEval Stmt Process Dsl.
From V.Harness Require Import Run.
From V.Harness Require Export RunC01 RunC05.
Import ListNotations.
Open Scope Z_scope.

Definition mk_tab (l : list sigdesc) : sigtab := fun i => nth i l {| sd_shape := Sh 0 false; sd_init := 0; sd_reset_less := false |}.
Definition SD (w : Z) (sg : bool) (init : Z) (rl : bool) : sigdesc := {| sd_shape := Sh w sg; sd_init := init; sd_reset_less := rl |}.

Definition env_eqb (n : nat) (a b : env) : bool := forallb (fun i => a i =? b i) (seq 0 n).

(* run the comb process and commit until nothing changes (delta cycles) *)
Fixpoint settle (fuel : nat) (n : nat) (tab : sigtab) (comb : list stmt) (st : slots) : slots :=
  match fuel with
  | O => st
  | S f =>
      let st' := commit (comb_process tab comb st) in
      if env_eqb n (s_curr st') (s_curr st) then st' else settle f n tab comb st'
  end.

Inductive event := EvSet (i : nat) (v : Z) | EvTick.

Definition init_slots (l : list sigdesc) : slots :=
  let e : env := fun i => sd_init (mk_tab l i) in {| s_curr := e; s_next := e |}.

Definition step (n : nat) (tab : sigtab) (comb sync : list stmt) (rst : option nat) (st : slots) (ev : event) : slots :=
  match ev with
  | EvSet i v => settle 16 n tab comb (commit {| s_curr := s_curr st; s_next := upd (s_next st) i v |})
  | EvTick => settle 16 n tab comb (commit (sync_process tab sync rst st))
  end.

Definition run_design (sigs : list sigdesc) (comb sync : list stmt) (rst : option nat) (evs : list event) : list Z :=
  let n := length sigs in
  let tab := mk_tab sigs in
  let st0 := settle 16 n tab comb (init_slots sigs) in
  let fix go (st : slots) (evs : list event) : list Z :=
    match evs with
    | [] => []
    | ev :: evs' => let st' := step n tab comb sync rst st ev in read_sigs n (s_curr st') ++ go st' evs'
    end in
  read_sigs n (s_curr st0) ++ go st0 evs.

(* a design written in the DSL: lowered by the model *)
Definition k_dsl (sigs : list sigdesc) (comb sync : list dstmt) (rst : option nat) (evs : list event) : list Z :=
  if forallb wf_dstmt comb && forallb wf_dstmt sync
  then 1 :: run_design sigs (map lower comb) (map lower sync) rst evs else [0].

(* the same with the statements as lowered by the real Module (serialised from the elaborated fragment) *)
Definition k_stmts (sigs : list sigdesc) (comb sync : list stmt) (rst : option nat) (evs : list event) : list Z :=
  1 :: run_design sigs comb sync rst evs.

(* SPEC rendering: per-bit "last active assignment wins" straight from dactive / last_writer-style search *)
Fixpoint last_writer_x (curr : env) (al : list (expr * expr)) (i : nat) (b : Z) : option (Z * expr) :=
  match al with
  | [] => None
  | a :: al' =>
      match last_writer_x curr al' i b with
      | Some x => Some x
      | None => match wr curr (fst a) i b with Some k => Some (k, snd a) | None => None end
      end
  end.

Definition spec_value (s : shape) (bitf : Z -> bool) : Z :=
  norm s (fold_right (fun b acc => (if bitf (Z.of_nat b) then 2 ^ Z.of_nat b else 0) + acc) 0 (seq 0 (Z.to_nat (width s)))).

(* comb-only design, spec: every comb-driven signal = init overridden by active assignments (evaluated in the settled state) *)
Definition k_comb_spec_gen (check_wf : bool) (sigs : list sigdesc) (comb : list dstmt) (driven : list nat) (evs : list event) : list Z :=
  if negb check_wf || forallb wf_dstmt comb then
    let n := length sigs in
    let tab := mk_tab sigs in
    let stmts := map lower comb in
    let st0 := settle 16 n tab stmts (init_slots sigs) in
    let check (st : slots) : list Z :=
      let curr := s_curr st in
      let al := flat_map (dactive curr) comb in
      map (fun i =>
             let s := sd_shape (tab i) in
             spec_value s (fun b => match last_writer_x curr al i b with
                                    | Some (k, r) => Z.testbit (denote curr r) k
                                    | None => Z.testbit (sd_init (tab i)) b
                                    end)) driven in
    let fix go (st : slots) (evs : list event) : list Z :=
      match evs with
      | [] => []
      | ev :: evs' => let st' := step n tab stmts [] None st ev in check st' ++ go st' evs'
      end in
    1 :: check st0 ++ go st0 evs
  else [0].

Definition k_comb_spec := k_comb_spec_gen true.
(* the same per-bit specification for targets that name a signal twice (no linearity check): the netlist and
   testbench semantics; the simulator's read-modify-write code differs there (known finding F9) *)
Definition k_comb_spec_alias := k_comb_spec_gen false.

(* RunC08.v — executable wrapper: a generated scenario (signals, processes, clocks, testbench scripts) run through
   the engine model of Model/Engine.v with the canonical (ascending) iteration orders. *)
From Coq Require Import ZArith List Bool.
From V.Model Require Export Bits Shape Ast Denote PyRTL PyEval Stmt Process Engine.
From V.Harness Require Import Run.
Import ListNotations.
Open Scope Z_scope.

(* per signal: shape, init, reset_less *)
Definition mk_tab (sigs : list sigdesc) : sigtab := fun i => nth i sigs (Build_sigdesc (Sh 0 false) 0 false).

Inductive pdesc :=
| DComb (ss : list stmt) (inputs : list nat)
| DSync (ss : list stmt) (clk : nat) (pol : Z) (rst : option nat) (arst : bool)
| DClock (slot : nat) (phase : option Z) (period : Z)
| DUComb (out : nat) (ins : list nat) (f : expr)
| DUSync (out : nat) (clk : nat) (pol : bool) (rst : option nat) (ins : list nat) (f : expr).

Definition mk_proc (sigs : list sigdesc) (d : pdesc) : proc :=
  let tab := mk_tab sigs in
  let n := length sigs in
  match d with
  | DComb ss inputs => rtl_comb tab n ss inputs
  | DSync ss clk pol rst arst => rtl_sync tab n ss clk pol rst arst
  | DClock slot phase period =>
      clock_proc slot (match phase with Some ph => ph | None => default_phase period end) period
  | DUComb out ins f => user_comb out (sd_shape (tab out)) ins f
  | DUSync out clk pol rst ins f => user_sync out (sd_shape (tab out)) (sd_init (tab out)) clk pol rst ins f
  end.

Definition mk_pstate (sigs : list sigdesc) (d : pdesc) : pstate :=
  match d with
  | DComb _ _ => rtl_pstate true
  | DSync _ _ _ _ _ => rtl_pstate false
  | DClock _ _ _ => clock_pstate
  | DUComb _ _ _ => user_pstate []
  | DUSync out _ _ _ _ _ => user_pstate [sd_init (mk_tab sigs out)]
  end.

Definition SFUEL : nat := 300.
Definition TFUEL : nat := 60.
Definition RFUEL : nat := 4000.

(* trace of all testbenches, then -100 and the final value of every signal *)
Definition k_run (sigs : list sigdesc) (ds : list pdesc) (tbs : list (list tbop)) (t_end : Z) : list Z :=
  let ps := map (mk_proc sigs) ds in
  let st0 := init_state (map sd_init sigs) (map (mk_pstate sigs) ds) tbs in
  let orc := id_oracle (length ds) (length tbs) (length sigs) in
  let st := run ps orc SFUEL TFUEL t_end RFUEL st0 in
  flat_map (fun r => Z.of_nat (fst r) :: snd r) (e_trace st) ++ [-100] ++ currs (e_slots st).

(* the same scenario under a different (rotated / reversed) family of orders: used by an Example only *)
Definition rev_oracle (np nt ns : nat) : oracle :=
  fun _ => Ord (rev (o_trig (full_orders np nt ns))) (rev (seq 0 np)) (rev (seq 0 ns)).

(* RunC08.v — executable wrapper: a generated scenario (signals, processes, clocks, testbench scripts) run through
   the engine model of Model/Engine.v with the canonical (ascending) iteration orders. *)
From Coq Require Import ZArith List Bool.
From V.Model Require Export Bits Shape Ast Denote PyRTL PyEval Stmt Process Engine.
From V.Harness Require Import Run.
Import ListNotations.
Open Scope Z_scope.

(* per signal: shape, init, reset_less *)
Definition mk_tab (sigs : list sigdesc) : sigtab := fun i => nth i sigs (Build_sigdesc (Sh 0 false) 0 false).

Inductive pdesc :=
| DComb (ss : list stmt) (inputs : list nat)
| DSync (ss : list stmt) (clk : nat) (pol : Z) (rst : option nat) (arst : bool)
| DSyncA (ss : list stmt) (clk : nat) (pos : bool) (rst : nat)        (* domain with asynchronous reset *)
| DClock (slot : nat) (phase : option (nat * Z)) (period : nat * Z)  (* Period(unit=value), see Engine.period_fs *)
| DUComb (out : nat) (ins : list nat) (f : expr)
| DUSync (out : nat) (clk : nat) (pol : bool) (rst : option nat) (ins : list nat) (f : expr)
| DUGen (spec : list trig) (binds : list nat) (outs : list (nat * expr))
| DMemComb (base depth : nat) (rowsh : shape) (rports : list rport) (inputs : list nat)
| DMemSync (base depth : nat) (rowsh : shape) (clk : nat) (pol : Z) (wports : list wport) (rports : list rport).

Definition mk_proc (sigs : list sigdesc) (d : pdesc) : proc :=
  let tab := mk_tab sigs in
  let n := length sigs in
  match d with
  | DComb ss inputs => rtl_comb tab n ss inputs
  | DSync ss clk pol rst arst => rtl_sync tab n ss clk pol rst arst
  | DSyncA ss clk pos rst => rtl_sync_arst tab n ss clk pos rst
  | DClock slot phase period =>
      let p := period_fs (fst period) (snd period) in
      clock_proc slot (match phase with Some ph => period_fs (fst ph) (snd ph) | None => default_phase p end) p
  | DUComb out ins f => user_comb out (sd_shape (tab out)) ins f
  | DUSync out clk pol rst ins f => user_sync out (sd_shape (tab out)) (sd_init (tab out)) clk pol rst ins f
  | DUGen spec binds outs => user_gen spec binds (map (fun o => (fst o, sd_shape (tab (fst o)), snd o)) outs)
  | DMemComb base depth rowsh rports inputs => mem_comb base depth rowsh rports inputs
  | DMemSync base depth rowsh clk pol wports rports => mem_sync base depth rowsh clk pol wports rports
  end.

Definition mk_pstate (sigs : list sigdesc) (d : pdesc) : pstate :=
  match d with
  | DComb _ _ => rtl_pstate true
  | DSync _ _ _ _ _ => rtl_pstate false
  | DSyncA _ clk pos rst => arst_pstate clk pos rst
  | DClock _ _ _ => clock_pstate
  | DUComb _ _ _ => user_pstate []
  | DUSync out _ _ _ _ _ => user_pstate [sd_init (mk_tab sigs out)]
  | DUGen _ _ outs => user_pstate (map (fun o => sd_init (mk_tab sigs (fst o))) outs)
  | DMemComb _ _ _ _ _ => rtl_pstate true
  | DMemSync _ _ _ _ _ _ _ => rtl_pstate false
  end.

Definition SFUEL : nat := 300.
Definition TFUEL : nat := 60.
Definition RFUEL : nat := 4000.

(* the same scenario under other families of orders *)
Definition rev_orders (np nt ns : nat) : orders :=
  Ord (rev (o_trig (full_orders np nt ns))) (rev (seq 0 np)) (rev (seq 0 ns)).
Definition rev_oracle (np nt ns : nat) : oracle := fun _ => rev_orders np nt ns.
(* ascending in even delta cycles, descending in odd ones *)
Definition alt_oracle (np nt ns : nat) : oracle :=
  fun n => if Nat.even n then full_orders np nt ns else rev_orders np nt ns.

Definition flat_trace (st : estate) : list Z :=
  flat_map (fun r => Z.of_nat (fst r) :: snd r) (e_trace st) ++ [-100] ++ currs (e_slots st).

(* mode 0: `while sim.advance() and now <= t_end and not quiescent`; mode 1: sim.run_until(t_end).
   tbs: (background, script).  The trace of all testbenches, then -100 and the final value of every signal and memory row;
   -554 / -553 appended when the run under descending / alternating orders differs from the run under ascending orders *)
Definition k_run (sigs : list sigdesc) (ds : list pdesc) (tbs : list (bool * list tbop)) (t_end : Z) (mode : Z) : list Z :=
  let ps := map (mk_proc sigs) ds in
  let st0 := init_state_bg (map sd_init sigs) (map (mk_pstate sigs) ds) tbs in
  let go (orc : oracle) :=
    flat_trace (if mode =? 0 then run ps orc SFUEL TFUEL t_end RFUEL st0
                else run_until ps orc SFUEL TFUEL t_end RFUEL st0) in
  let a := go (id_oracle (length ds) (length tbs) (length sigs)) in
  let b := go (rev_oracle (length ds) (length tbs) (length sigs)) in
  let c := go (alt_oracle (length ds) (length tbs) (length sigs)) in
  a ++ (if zlist_eqb a b then [] else [-554]) ++ (if zlist_eqb a c then [] else [-553]).

(* RunC10.v — executable wrappers (model answers as lists of integers) for the C10 cases. *)
From Coq Require Import ZArith List Bool.
From V.Model Require Export Bits Shape Cast.
From V.Harness Require Import Run.
Import ListNotations.
Open Scope Z_scope.

Definition sh2l (s : shape) : list Z := [width s; b2l (sgn s)].
Definition oz2l (o : option Z) : list Z := match o with Some v => [1; v] | None => [0] end.

Definition k_bits_for (n : Z) (b : bool) : list Z := [bits_for n b].
Definition k_ceil_log2 (n : Z) : list Z := oz2l (ceil_log2 n).
Definition k_exact_log2 (n : Z) : list Z := oz2l (exact_log2 n).
Definition k_range (a b st : Z) : list Z := sh2l (cast_range a b st).
Definition k_enum (ms : list Z) : list Z := sh2l (cast_enum ms).
(* Const(v, Shape(w, sg)) -> value; invalid shape -> error *)
Definition k_const (v w : Z) (sg : bool) : list Z :=
  if wf_shape (Sh w sg) then [1; const_norm (Sh w sg) v] else [0].
(* Const(v) -> shape and value *)
Definition k_const_auto (v : Z) : list Z := sh2l (const_shape v) ++ [const_norm (const_shape v) v].
(* Const(v, w:int) *)
Definition k_const_int (v w : Z) : list Z :=
  match const_int_shape v w with
  | Some s => 1 :: sh2l s ++ [const_norm s v]
  | None => [0]
  end.
Definition k_const_cast (e : cexpr) : list Z :=
  if cwf e then let '(v, s) := const_cast e in 1 :: v :: sh2l s else [0].
(* Signal(Shape(w, sg), init=v).init *)
Definition k_init (v w : Z) (sg : bool) : list Z := [norm (Sh w sg) v].
(* Signal(range(a, b, st), init=v): rejected unless v is an element (Cast.range_mem); accepted value wrapped *)
Definition k_init_range (a b st v : Z) : list Z :=
  if range_mem a b st v then [1; norm (cast_range a b st) v] else [0].

(* ---- added after the coverage audit ---- *)
Definition rz2l (r : res Z) : list Z := match r with Ok v => [1; v] | Err c => [0; c] end.
(* Signal(shape-like, init=anything constant-castable).init, or the class of the exception *)
Definition k_init_x (sp : shspec) (i : initv) : list Z := rz2l (get_init_value sp i).
(* list(MemoryData(shape=, depth=, init=[...]).init) *)
Definition k_mem_init (sp : shspec) (depth : Z) (elems : list initv) : list Z :=
  match mem_init sp depth elems with Ok l => 1 :: l | Err c => [0; c] end.
(* Const(v, range(a, b, st)) -> shape and value *)
Definition k_const_range (v a b st : Z) : list Z :=
  let s := cast_range a b st in sh2l s ++ [const_norm s v].
(* Const(member): shape of the member's class;  Const(member, shape): the given shape (None / invalid = TypeError) *)
Definition k_const_member_default (cls : shape) (v : Z) : list Z := 1 :: sh2l cls ++ [const_norm cls v].
Definition k_const_member_shape (o : option shape) (v : Z) : list Z :=
  match o with
  | Some s => if wf_shape s then 1 :: sh2l s ++ [const_norm s v] else [0; 1]
  | None => [0; 1]
  end.
(* Shape.cast(enumeration class) *)
Definition k_shape (s : shape) : list Z := 1 :: sh2l s.

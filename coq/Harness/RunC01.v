(* RunC01.v — executable wrappers for C01/C05 expression cases. *)
From Coq Require Import ZArith List Bool.
From V.Model Require Export Bits Shape Ast Denote PyRTL PyEval Derived.
From V.Harness Require Import Run.
Import ListNotations.
Open Scope Z_scope.

Definition env_of (vs : list Z) : env := fun i => nth i vs 0.

(* per stimulus: circuit value on o : Signal(e.shape()), on o2 : signed(w+3), on o3 : unsigned(2);
   testbench read ctx.get(e); and the spec value (must equal the first and fourth by the theorems) *)
Definition k_expr (e : expr) (stims : list (list Z)) : list Z :=
  if wf_expr e then
    let s := shape_of e in
    1 :: width s :: b2l (sgn s) ::
    flat_map (fun vs =>
      let en := env_of vs in
      [ rtl_drive s en e;
        rtl_drive (Sh (width s + 3) true) en e;
        rtl_drive (Sh 2 false) en e;
        eval_tb en e;
        denote en e ]) stims
  else [0; build_err e].      (* rejected at construction: the class of the exception (Derived.build_err) *)

(* Array(elems)[index] observed as a proxy: [1; ArrayProxy.shape(); Value.cast(proxy).shape(); len(proxy)] then the rows of
   k_expr for the converted value *)
Definition k_array (elems : list expr) (index : expr) (stims : list (list Z)) : list Z :=
  let e := mk_array_raw elems index in
  if wf_expr index && forallb wf_expr elems then
    let ps := array_proxy_shape elems in
    1 :: width ps :: b2l (sgn ps) :: ewidth e :: tl (k_expr e stims)
  else [0; build_err (ECat (elems ++ [index]))].

(* Python builtins as read by the model: slice(start, stop, step).indices(len) and list(range(a, b, s)) *)
Definition k_key_indices (len : Z) (k : pykey) : list Z :=
  match py_key_indices len k with
  | None => [0]
  | Some (a, b, s) => [1; a; b; s] ++ py_range a b s
  end.

(* RunC14.v — executable wrappers (model answers as lists of integers) for the C14 cases. *)
From Coq Require Import ZArith List Bool.
From V.Model Require Export Bits Shape Wiring.
From V.Harness Require Import Run.
Import ListNotations.
Open Scope Z_scope.

(* ---- short constructors used by the generated case terms ---- *)
Definition fl_of (z : Z) : flow := if z =? 0 then FOut else FIn.
Definition dims_of (d : list Z) : list nat := map Z.to_nat d.
Definition P (f w : Z) (sg : bool) (init : Z) (d : list Z) : member := Port (fl_of f) (Sh w sg) init (dims_of d).
Definition I (f : Z) (w : bool) (ms : members) (d : list Z) : member := Iface (fl_of f) w ms (dims_of d).
Definition MP (n f w : Z) (sg : bool) (init : Z) (d : list Z) : Z * member := (n, P f w sg init d).
Definition MI (n f : Z) (w : bool) (ms : members) (d : list Z) : Z * member := (n, I f w ms d).
Definition Sg (w : bool) (ms : members) : sigt := (w, ms).
(* port described by range(a, b) / a plain Python Enum: the shape is cast by the C10 model (Model/Shape.v) *)
Definition MPR (n f a b init : Z) (d : list Z) : Z * member := (n, Port (fl_of f) (cast_range a b 1) init (dims_of d)).
Definition MPE (n f : Z) (vals : list Z) (init : Z) (d : list Z) : Z * member :=
  (n, Port (fl_of f) (cast_enum vals) init (dims_of d)).
(* port described by a data layout (StructLayout / ArrayLayout / Struct): scalar fields (width, initial value) in
   layout order, least significant first; Layout.const packs them, the port is unsigned(sum of widths) *)
Definition F (w v : Z) : Z * Z := (w, v).
Fixpoint pack (l : list (Z * Z)) : Z :=
  match l with [] => 0 | wv :: r => (snd wv mod 2 ^ fst wv) + 2 ^ fst wv * pack r end.
Definition agg_width (l : list (Z * Z)) : Z := fold_right (fun wv acc => fst wv + acc) 0 l.
Definition MPA (n f : Z) (fs : list (Z * Z)) (d : list Z) : Z * member :=
  (n, Port (fl_of f) (Sh (agg_width fs) false) (pack fs) (dims_of d)).
Definition N (n : Z) : item := PN n.
Definition X (i : Z) : item := PI (Z.to_nat i).

(* ---- encodings ---- *)
Definition e_flow (f : flow) : Z := if is_in f then 1 else 0.
Definition e_err (e : cerr) : Z :=
  match e with
  | ENotCompliant => 1 | EMissing => 2 | ESigPort => 3 | EWidth => 4 | EInit => 5 | ESeveral => 6
  | EConstVar => 7 | EConstDiff => 8 | EOnlyIn => 9 | ETypeErr => 10 | EAttr => 11 | EAssertDims => 12 | EIndex => 13
  end.
Definition e_item (i : item) : list Z := match i with PN n => [0; n] | PI k => [1; Z.of_nat k] end.
Definition e_path (p : path) : list Z := Z.of_nat (length p) :: flat_map e_item p.
Definition e_names (p : list Z) : list Z := Z.of_nat (length p) :: p.
Definition e_dims (d : list nat) : list Z := Z.of_nat (length d) :: map Z.of_nat d.
Definition e_member (m : member) : list Z :=
  match m with
  | Port f sh i d => [0; e_flow f; width sh; b2l (sgn sh); norm sh i] ++ e_dims d   (* _init_as_const.value *)
  | Iface f _ _ d => [1; e_flow f] ++ e_dims d
  end.
Definition e_entry (e : entry) : list Z := e_names (fst e) ++ e_member (snd e).
Definition e_leaf (l : leaf) : list Z :=
  e_path (l_path l) ++ [e_flow (l_flow l); width (l_shape l); b2l (sgn (l_shape l)); l_init l] ++
  match l_val l with
  | OSig nm sh i => [1] ++ e_path nm ++ [width sh; b2l (sgn sh); i]
  | OConst sh v => [2; width sh; b2l (sgn sh); v]
  | _ => [3]
  end.
Definition e_hpath (h : hpath) : list Z := Z.of_nat (fst h) :: e_path (snd h).

(* ---- object construction: create / flip / flipped() / attribute edits ---- *)
Inductive edit := ESet (v : obj) | EDel.

Fixpoint obj_put (o : obj) (p : path) (e : edit) : obj :=
  match p with
  | [] => match e with ESet v => v | EDel => o end
  | PN n :: r =>
      match o with
      | OIf fl x attrs =>
          match r, e with
          | [], EDel => OIf fl x (filter (fun kv => negb (fst kv =? n)) attrs)
          | _, _ => OIf fl x (map (fun kv => if fst kv =? n then (fst kv, obj_put (snd kv) r e) else kv) attrs)
          end
      | _ => o
      end
  | PI i :: r =>
      match o with
      | OArr l =>
          match r, e with
          | [], EDel => OArr (firstn i l ++ skipn (S i) l)
          | _, _ => OArr (firstn i l ++ match nth_error l i with Some c => [obj_put c r e] | None => [] end ++ skipn (S i) l)
          end
      | _ => o
      end
  end.

Definition Ed (p : path) (e : edit) : path * edit := (p, e).
(* argument k: (flip the signature first?) create(path=(h,)), edit raw attributes, (wrap with flipped()?) *)
Fixpoint flipn (n : nat) (o : obj) : obj :=
  match n with O => o | S k => match flipped o with Ok o' => flipn k o' | Err _ => OBad end end.
Definition mk (x : sigt) (h : Z) (fs : bool) (fo : Z) (edits : list (path * edit)) : obj :=
  let o := create (if fs then sig_flip x else x) [PN h] in
  let o := fold_left (fun o pe => obj_put o (fst pe) (snd pe)) edits o in
  flipn (Z.to_nat fo) o.
Definition S_ (nm : list item) (w : Z) (sg : bool) (init : Z) : edit := ESet (OSig nm (Sh w sg) (norm (Sh w sg) init)).
Definition C_ (w : Z) (sg : bool) (v : Z) : edit := ESet (OConst (Sh w sg) (norm (Sh w sg) v)).
Definition B_ : edit := ESet OBad.
Definition L_ (l : list edit) : edit :=
  ESet (OArr (map (fun e => match e with ESet v => v | EDel => OBad end) l)).

(* ---- answers ---- *)
(* list(sig.members.flatten()), same for sig.flip(), and whether sig.flip().flip() has the members of sig *)
Definition k_members (x : sigt) : list Z :=
  let a := flat_members x in
  let b := flat_members (sig_flip x) in
  [Z.of_nat (length a)] ++ flat_map e_entry a ++ flat_map e_entry b ++
  [b2l (entries_eqb (flat_members (sig_flip (sig_flip x))) a); b2l (sig_eqb x x); b2l (sig_eqb x (sig_flip x))].

Definition e_resb (r : res bool) : list Z := match r with Ok b => [b2l b] | Err e => [-1; e_err e] end.

(* obj.signature.is_compliant(obj), then list(obj.signature.flatten(obj)) *)
Definition k_obj (o : obj) : list Z :=
  match obj_sig o with
  | None => [-2]
  | Some x =>
      e_resb (is_compliant x o) ++
      match flat_obj x o with
      | Ok ls => Z.of_nat (length ls) :: flat_map e_leaf ls
      | Err e => [-1; e_err e]
      end
  end.

Definition k_compliant (o : obj) : list Z :=
  match obj_sig o with None => [-2] | Some x => e_resb (is_compliant x o) end.

(* ---- simulation after connect, predicted from the model's assignment list ----
   the testbench drives the n-th output leaf that is a Signal (arguments in order, leaves in flatten order) with
   (37 n + 11) mod 1021 cast to its shape, then reads every input leaf that is a Signal, in the same order *)
Definition item_eqb (a b : item) : bool :=
  match a, b with PN x, PN y => x =? y | PI x, PI y => Nat.eqb x y | _, _ => false end.
Fixpoint ipath_eqb (a b : path) : bool :=
  match a, b with [] , [] => true | x :: a', y :: b' => item_eqb x y && ipath_eqb a' b' | _, _ => false end.
Definition hpath_eqb (a b : hpath) : bool := Nat.eqb (fst a) (fst b) && ipath_eqb (snd a) (snd b).

Definition obj_leaves (o : obj) : list leaf :=
  match obj_sig o with
  | Some x => match flat_obj x o with Ok ls => ls | Err _ => [] end
  | None => []
  end.
Fixpoint tag_objs (k : nat) (objs : list obj) : list (nat * leaf) :=
  match objs with [] => [] | o :: r => map (fun l => (k, l)) (obj_leaves o) ++ tag_objs (S k) r end.
Definition is_sig_obj (o : obj) : bool := match o with OSig _ _ _ => true | _ => false end.
Definition sig_shape (o : obj) : shape := match o with OSig _ sh _ => sh | _ => Sh 0 false end.
Definition sig_init (o : obj) : Z := match o with OSig _ _ i => i | _ => 0 end.

Fixpoint drives_from (n : Z) (ls : list (nat * leaf)) : list (hpath * Z) :=
  match ls with
  | [] => []
  | (h, l) :: r =>
      if negb (is_in (l_flow l)) && is_sig_obj (l_val l)
      then ((h, l_path l), norm (sig_shape (l_val l)) ((37 * n + 11) mod 1021)) :: drives_from (n + 1) r
      else drives_from n r
  end.
Fixpoint lookup_h {A} (k : hpath) (l : list (hpath * A)) : option A :=
  match l with [] => None | (k', v) :: r => if hpath_eqb k k' then Some v else lookup_h k r end.

Definition sim_expect (objs : list obj) (cs : list asg) : list Z :=
  let ls := tag_objs 0 objs in
  let drv := drives_from 1 ls in
  let reads := filter (fun hl => is_in (l_flow (snd hl)) && is_sig_obj (l_val (snd hl))) ls in
  Z.of_nat (length reads) ::
  map (fun hl =>
         let sh := sig_shape (l_val (snd hl)) in
         match lookup_h (fst hl, l_path (snd hl)) cs with
         | None => sig_init (l_val (snd hl))
         | Some op =>
             match traverse objs op with
             | Ok (OSig _ _ _) => match lookup_h op drv with Some v => norm sh v | None => -1 end
             | Ok (OConst _ v) => norm sh v
             | _ => -1
             end
         end) reads.

(* connect(m, *objs): [1, n, (in, out)*] then the values read in simulation, or [0, error kind] *)
Definition k_connect (objs : list obj) : list Z :=
  match connect objs with
  | Ok cs => [1; Z.of_nat (length cs)] ++ flat_map (fun a => e_hpath (fst a) ++ e_hpath (snd a)) cs ++ sim_expect objs cs
  | Err e => [0; e_err e]
  end.

(* tuple-of-str comparison = lexicographic comparison of the code points (the order used to rank member names) *)
Definition k_names (names : list (list Z)) : list Z :=
  map (fun n => Z.of_nat (length (filter (fun m => match path_cmp m n with Lt => true | _ => false end) names))) names.

Fixpoint e_json (j : json) : list Z :=
  match j with
  | JPort nm d w sg i => [1] ++ e_path nm ++ [e_flow d; w; b2l sg; i]
  | JArr l => [2; Z.of_nat (length l)] ++ flat_map e_json l
  | JIface ms => [3; Z.of_nat (length ms)] ++ flat_map (fun nj => fst nj :: e_json (snd nj)) ms
  end.
(* as_json reads every attribute of the component the way flatten does (TypeError on a flipped list of interfaces) *)
Definition k_meta (x : sigt) : list Z :=
  match flat_obj x (create_component x) with
  | Err e => [-1; e_err e]
  | Ok _ => match metadata x with JIface ms => flat_map (fun nj => fst nj :: e_json (snd nj)) ms | _ => [] end
  end.

(* a fresh Signature built from the flipped members (no FlippedSignature wrapper) *)
Definition mirror_sig (x : sigt) : sigt := (false, sig_members (sig_flip x)).

(* ---- SPEC-level answers (what the property statement demands; used to re-find the recorded defects) ---- *)
(* every created interface complies and flattens to the leaves of the specification *)
Definition e_sleaf (l : sleaf) : list Z :=
  e_path (s_path l) ++ [e_flow (s_flow l); width (s_shape l); b2l (sgn (s_shape l))].
Definition k_spec_create (x : sigt) : list Z :=
  let ls := spec_leaves x in [1; Z.of_nat (length ls)] ++ flat_map e_sleaf ls.

(* connect on interfaces created from x / flipped x (bs: which are flipped): for every leaf with exactly one output,
   every input is assigned from it; listed by handle, then in specification leaf order *)
Definition spec_connect (x : sigt) (bs : list bool) : list (nat * path * nat) :=
  let lss := map (fun b : bool => spec_leaves (if b then sig_flip x else x)) bs in
  let hs := seq 0 (length bs) in
  let flow_at (k j : nat) : option flow :=
      match nth_error lss k with Some ls => option_map s_flow (nth_error ls j) | None => None end in
  flat_map (fun k =>
    match nth_error lss k with
    | None => []
    | Some ls =>
        flat_map (fun jl =>
          let j := fst jl in
          let outs := filter (fun k' => match flow_at k' j with Some FOut => true | _ => false end) hs in
          match is_in (s_flow (snd jl)), outs with
          | true, [ko] => [(k, s_path (snd jl), ko)]
          | _, _ => []
          end) (combine (seq 0 (length ls)) ls)
    end) hs.
Definition k_spec_connect (x : sigt) (bs : list bool) : list Z :=
  let cs := spec_connect x bs in
  [1; Z.of_nat (length cs)] ++
  flat_map (fun c => [Z.of_nat (fst (fst c))] ++ e_path (snd (fst c)) ++ [Z.of_nat (snd c)]) cs ++ [1].

(* RunC06.v — executable wrappers (model answers as lists of integers) for the C06 cases. *)
From Coq Require Import ZArith List Bool.
From V.Model Require Export Nir.
From V.Harness Require Import Run.
Import ListNotations.
Open Scope Z_scope.

Definition zn (n : nat) : Z := Z.of_nat n.

(* drivers: [1; sig; bit; 1]  early SyntaxError of the DSL on (sig, bit)
            [0; 0; 0]         accepted by the whole-design check
            [0; 1; kind; sig; bit; 1]  DriverConflict (kind 1 connect, 2 domain, 3 module)
   faithful-model part first, last element = the SPEC verdict conflictb (1 = some bit has two sources) *)
Definition k_drv (d : design) : list Z :=
  match early_design (d_top d) with
  | Some (s, b) => [1; zn s; zn b; b2l (conflictb d)]
  | None =>
      match driver_table d with
      | None => [0; 0; b2l (conflictb d)]
      | Some (ErrConnect s b) => [0; 1; 1; zn s; zn b; b2l (conflictb d)]
      | Some (ErrDomain s b) => [0; 1; 2; zn s; zn b; b2l (conflictb d)]
      | Some (ErrModule s b) => [0; 1; 3; zn s; zn b; b2l (conflictb d)]
      end
  end.

Definition net_code (n : net) : Z :=
  match n with NC c b => zn c * 65536 + zn b | NL l => - zn l end.

(* structure: per cell, per output net (model order): net, per_bit flag, number of edges, edges *)
Fixpoint struct_cells (cs : list cell) (idx : nat) : list Z :=
  match cs with
  | [] => []
  | c :: r =>
      flat_map (fun n => match n with
                         | NC _ b => net_code n :: b2l (per_bit c) :: zn (length (comb_edges c b))
                                       :: map net_code (comb_edges c b)
                         | NL _ => []
                         end) (outputs c idx)
      ++ struct_cells r (S idx)
  end.

Definition verdict_code (v : verdict) : list Z :=
  match v with
  | VAccept => [0; 0]
  | VCycle p => [1; zn (length p)]
  | VAssert => [2; 0]
  | VFuel => [3; 0]
  end.

(* cycles: [verdict; len(path); wf] ++ structure *)
Definition k_cyc (g : netlist) : list Z :=
  verdict_code (check_cycles g) ++ [b2l (wf_netlist g && top_first g && wf_struct g)] ++ struct_cells (cells g) 0.

(* design-level oracle: 1 iff some signal bit of the design depends on itself *)
Definition k_gt (sts : list cstmt) : list Z := [b2l (design_cyclicb sts)].

(* RunC11.v — executable wrappers (model answers as lists of integers) for the C11 cases.

   Stimulus and answers are packed (parsing integer literals dominates the time Coq spends on a case file):
   one event = two integers x y, each below 2^60.
     y odd : testbench row write   ctx.set(mem.data[y / 2], x)            (x any integer)
     y even: step; bit 1 / 2 = clock of domain 0 / 1 rises, bit 3 / 4 = level of its reset,
             bits 5+5j .. 9+5j  = read port j:  addr (4 bits) + 16 * en
             x bits 20j .. 20j+19 = write port j: addr (4 bits) + 16 * en (8 bits) + 4096 * data (8 bits)
   Answer: per event one integer  sum_j enc(read data j) * 256^j,  then the rows, four per integer;
   enc v = v + 2^(width-1) for a signed row shape, v otherwise (so the exact value is compared).
   All generated widths are <= 8, at most 3 + 3 ports, depth <= 8. *)
From Coq Require Import ZArith List Bool.
From V.Model Require Export Bits Mem.
From V.Harness Require Import Run.
Import ListNotations.
Open Scope Z_scope.

Definition bits (x lo n : Z) : Z := Z.land (Z.shiftr x lo) (Z.ones n).

(* decoded once per event; ports beyond the third get zeros *)
Definition dec_wi (x : Z) : nat -> win :=
  let l := map (fun j => let f := bits x (20 * j) 20 in WI (bits f 0 4) (bits f 12 8) (bits f 4 8)) [0; 1; 2] in
  fun j => nth j l (WI 0 0 0).
Definition dec_ri (y : Z) : nat -> rin :=
  let l := map (fun j => let f := bits y (5 + 5 * j) 5 in RI (bits f 0 4) (bits f 4 1)) [0; 1; 2] in
  fun j => nth j l (RI 0 0).
Definition dec_doms (y : Z) : list (Z * bool) :=
  (if Z.testbit y 1 then [(0, Z.testbit y 3)] else []) ++
  (if Z.testbit y 2 then [(1, Z.testbit y 4)] else []).
Definition dec_ev (x y : Z) : event :=
  if Z.odd y then ETbSet (Z.shiftr y 1) x else EStep (dec_doms y) (dec_wi x) (dec_ri y).

Fixpoint dec_evs (l : list Z) : list event :=
  match l with
  | x :: y :: r => dec_ev x y :: dec_evs r
  | _ => []
  end.

Definition enc (s : shape) (v : Z) : Z := if sgn s then v + 2 ^ (width s - 1) else v.
Fixpoint pack8 (l : list Z) : Z :=
  match l with
  | [] => 0
  | x :: r => x + 256 * pack8 r
  end.
Fixpoint chunk4 (fuel : nat) (l : list Z) : list Z :=
  match fuel, l with
  | O, _ => []
  | _, [] => []
  | S f, _ => pack8 (firstn 4 l) :: chunk4 f (skipn 4 l)
  end.

Definition enc_state (md : memd) (st : mstate) : Z := pack8 (map (enc (md_shape md)) (st_rdata st)).
Definition enc_rows (md : memd) (st : mstate) : list Z :=
  chunk4 (length (st_rows st)) (map (enc (md_shape md)) (st_rows st)).

(* the simulated memory *)
Definition k_mem (md : memd) (init : list Z) (evs : list Z) : list Z :=
  let es := dec_evs evs in
  let st0 := init_state md init in
  let tr := mem_trace md st0 es in
  map (enc_state md) tr ++ enc_rows md (last tr st0).

(* the array-of-rows specification run as a machine (cross-check of the refinement theorem on the same cases) *)
Fixpoint spec_trace (md : memd) (st : mstate) (evs : list event) : list mstate :=
  match evs with
  | [] => []
  | e :: r => let st' := spec_step md st e in st' :: spec_trace md st' r
  end.
Definition k_spec (md : memd) (init : list Z) (evs : list Z) : list Z :=
  let es := dec_evs evs in
  let st0 := init_state md init in
  let tr := spec_trace md st0 es in
  map (enc_state md) tr ++ enc_rows md (last tr st0).

(* 1 iff every event satisfies the hypothesis of the refinement theorem *)
Definition k_evs_ok (md : memd) (evs : list Z) : list Z := [b2l (forallb (ev_ok md) (dec_evs evs))].

(* constructor acceptance: Memory(shape, depth, init) then write_port(granularity) *)
Definition k_ctor (s : shape) (depth : Z) (init : list Z) (gran : option Z) : list Z :=
  let c := init_ctor depth init in
  if negb (c =? 0) then [c] else
  let g := wsig_ctor s gran in
  if negb (g =? 0) then [g] else [0; wsig_enw s gran; ceil_log2 depth].

(* ================================================================== appended: second generation of wrappers *)
From V.Model Require Export RtlilSem.

(* k_mem2: the configuration is given as the constructor arguments (row shape-like, granularities); widths, enable
   widths and the hypothesis ev_ok are computed here.
   flags bit 0: run the array SPECIFICATION machine instead of the simulator model;
         bit 1: after every event all rows are read through mem.data[i] as well (four per integer).
   Answer: [1 iff every event satisfies ev_ok] ++ per event (read data [++ rows]) ++ final rows. *)
Definition enc_ev (rr : bool) (md : memd) (st : mstate) : list Z :=
  enc_state md st :: (if rr then enc_rows md st else []).
Definition k_mem2 (flags : Z) (r : rowshape) (depth : Z) (wps : list (Z * option Z)) (rps : list rport)
                  (dflt : Z) (init : list Z) (evs : list Z) : list Z :=
  let md := mk_md r depth wps rps in
  let es := dec_evs evs in
  let st0 := init_state_d md dflt init in
  let tr := if Z.testbit flags 0 then spec_trace md st0 es else mem_trace md st0 es in
  b2l (forallb (ev_ok md) es) :: flat_map (enc_ev (Z.testbit flags 1) md) tr ++ enc_rows md (last tr st0).

(* the design converted by back.rtlil, read back by harness/rtlil_read.py, run under the RTLIL semantics of
   Model/RtlilSem.v ($memrd_v2 / $memwr_v2 / $meminit_v2 included): one row (status, observations) per settle *)
(* skip: number of leading integers not compared (the rows before the end of the preamble event, while the data of a
   clocked read port is still its undefined INIT_VALUE) *)
Definition k_rtl (skip : Z) (d : doc) (obs : list (option (list nat * nat * Z))) (init_ins : list (nat * Z))
                 (stim : list (list (nat * Z))) : list Z :=
  skipn (Z.to_nat skip) (run d obs init_ins stim).

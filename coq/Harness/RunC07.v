(* RunC07.v — executable wrappers for the C07 cases (answers as lists of integers). *)
From Coq Require Import ZArith List Bool Ascii.
From Coq Require Export String.   (* case files write "..."%string *)
From V.Model Require Export Rtlil.
From V.Harness Require Import Run.
Import ListNotations.
Open Scope Z_scope.

(* document emitted for a legal design: [1] when the certified checker accepts it, otherwise 0 followed by
   (module index, failing clause) pairs — see Rtlil.diag_doc *)
Definition k_wf (ex : list fspec) (d : doc) : list Z :=
  if wf_doc ex d then [1] else 0 :: diag_doc ex d.
(* bare verdict (negative corpus: corrupted documents must give [0]) *)
Definition k_verdict (ex : list fspec) (d : doc) : list Z := [b2l (wf_doc ex d)].
(* verdict and the failing clauses, for corrupted documents whose failing clause is predicted *)
Definition k_diag (ex : list fspec) (d : doc) : list Z := b2l (wf_doc ex d) :: diag_doc ex d.

Fixpoint codes (s : string) : list Z :=
  match s with EmptyString => [] | String c r => Z.of_N (N_of_ascii c) :: codes r end.
(* _add_name applied in sequence to a set that starts as `reserved`: [0] when the assertion fails, otherwise
   1 followed by the character codes of every assigned name, each terminated by -1 *)
Definition k_names (reserved wanted : list string) : list Z :=
  match assign_names reserved wanted with
  | None => [0]
  | Some (out, _) => 1 :: flat_map (fun s => codes s ++ [-1]) out
  end.

(* a batch of sequences; answers separated by -2 *)
Definition k_names_batch (items : list (list string * list string)) : list Z :=
  flat_map (fun rw => k_names (fst rw) (snd rw) ++ [-2]) items.

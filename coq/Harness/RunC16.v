(* RunC16.v — executable wrappers (model answers as lists of integers) for the C16 cases. *)
From Coq Require Import ZArith List Bool.
From V.Model Require Export Bits Crc.
From V.Harness Require Import Run.
Import ListNotations.
Open Scope Z_scope.

(* Algorithm(...)(data_width).compute(words): [-1] Algorithm ValueError, [-2] Parameters ValueError,
   [0] compute ValueError (word out of range), [1; crc] *)
Definition k_compute (a : algo) (d : Z) (ws : list Z) : list Z :=
  if negb (algo_ok a) then [-1]
  else if negb (0 <? d) then [-2]
  else match compute a d ws with Some c => [1; c] | None => [0] end.

(* the specification run directly (williams on the message bits), for in-range words *)
Definition k_williams (a : algo) (d : Z) (ws : list Z) : list Z :=
  [1; williams a (message_bits a d ws)].

Definition k_residue (a : algo) : list Z := [residue a].

Definition k_reflect (x n : Z) : list Z := [reflect x n].

Definition row2l (r : list bool) : list Z := map b2l r.
Definition k_matrices (a : algo) (d : Z) : list Z :=
  let '(f, g) := matrices a d in
  Z.of_nat (length f) :: Z.of_nat (length g) :: flat_map row2l f ++ flat_map row2l g.

(* Processor simulated: outputs (crc, match_detected) before the first edge and after every edge *)
Definition k_hw (a : algo) (d : Z) (cs : list cycle) : list Z :=
  hw_crc a (init a) :: b2l (hw_match a (init a)) ::
  flat_map (fun o => [fst o; b2l (snd o)]) (hw_trace a d cs).

(* message then trailer built by the model's `trailer` from the model's CRC, every word valid *)
Definition k_trailer (a : algo) (d : Z) (k : Z) (ws : list Z) : list Z :=
  trailer a d (Z.to_nat k) (compute_raw a d ws).

(* published table entry i: parameters, check and residue as committed, and as computed by the model *)
Definition k_table_entry (i : Z) : list Z :=
  match nth_error reveng_table (Z.to_nat i) with
  | Some (a, (chk, res)) =>
      [cw a; poly a; init a; b2l (refin a); b2l (refout a); xorout a; chk; res;
       compute_raw a 8 check_msg; residue a; williams a (message_bits a 8 check_msg)]
  | None => []
  end.
Definition k_table_len : list Z := [Z.of_nat (length reveng_table)].

(* Codeword runs.  Cycles: `pre` (arbitrary junk cycles before the start), then either a cycle with start alone
   (st = 1), or start together with the first word (st = 0), or no start at all (st = 2, only used with pre = []:
   the register is at its reset value); every word of message ++ trailer is preceded by gaps[i] idle cycles
   (valid = 0, data = the coming word).  The trailer is the model's `trailer` of the model's CRC xor-ed word by
   word with tx.  Answer: trailer words, outputs before the first edge and after every edge, then the verdict of
   the property text: 1 = "match_detected after the last word iff tx is all zero" — the model states the
   property here (always 1); the harness computes the same flag from the observed final match_detected. *)
Fixpoint sched (first : bool) (words gaps : list Z) : list cycle :=
  match words with
  | [] => []
  | x :: r => repeat (Cy false false x) (Z.to_nat (hd 0 gaps)) ++ Cy first true x :: sched false r (tl gaps)
  end.

Definition match_cycles (a : algo) (d k : Z) (ws tx : list Z) (pre : list cycle) (st : Z) (gaps : list Z) : list Z * list cycle :=
  let t := map (fun p => Z.lxor (fst p) (snd p)) (combine (trailer a d (Z.to_nat k) (compute_raw a d ws)) tx) in
  (t, pre ++ (if st =? 1 then [Cy true false 0] else []) ++ sched (st =? 0) (ws ++ t) gaps).

Definition k_match (a : algo) (d k : Z) (ws tx : list Z) (pre : list cycle) (st : Z) (gaps : list Z) : list Z :=
  let '(t, cs) := match_cycles a d k ws tx pre st gaps in
  t ++ k_hw a d cs ++ [1].

(* Processor(parameters).__init__: signal widths, the initial-value constant, the stored residue and matrices *)
Definition k_proc (a : algo) (d : Z) : list Z :=
  [cw a; d; 1; 1; 1; init a; cw a; residue a] ++ k_matrices a d.

(* TypeError of Processor(non-Parameters) / operator.index(non-int) *)
Definition k_typeerr : list Z := [-3].

(* Layer B for the Processor: the RTLIL document emitted by the real backend for a Processor (read back by
   harness/rtlil_read.py) is run under Model/RtlilSem.v (the RTLIL semantics of C04) on the stimulus
   "set start/valid/data; clk = 1; clk = 0" per cycle; one row (status, crc, match_detected) per settle.
   The observed side is the real simulator's trace of the same Processor. *)
From V.Model Require Export RtlilSem.
Definition k_rtl (d : doc) (obs : list (option (list nat * nat * Z))) (init_ins : list (nat * Z))
                 (stim : list (list (nat * Z))) : list Z :=
  run d obs init_ins stim.

(* RunC16.v — executable wrappers (model answers as lists of integers) for the C16 cases. *)
From Coq Require Import ZArith List Bool.
From V.Model Require Export Bits Crc.
From V.Harness Require Import Run.
Import ListNotations.
Open Scope Z_scope.

(* Algorithm(...)(data_width).compute(words): [-1] Algorithm ValueError, [-2] Parameters ValueError,
   [0] compute ValueError (word out of range), [1; crc] *)
Definition k_compute (a : algo) (d : Z) (ws : list Z) : list Z :=
  if negb (algo_ok a) then [-1]
  else if negb (0 <? d) then [-2]
  else match compute a d ws with Some c => [1; c] | None => [0] end.

(* the specification run directly (williams on the message bits), for in-range words *)
Definition k_williams (a : algo) (d : Z) (ws : list Z) : list Z :=
  [1; williams a (message_bits a d ws)].

Definition k_residue (a : algo) : list Z := [residue a].

Definition k_reflect (x n : Z) : list Z := [reflect x n].

Definition row2l (r : list bool) : list Z := map b2l r.
Definition k_matrices (a : algo) (d : Z) : list Z :=
  let '(f, g) := matrices a d in
  Z.of_nat (length f) :: Z.of_nat (length g) :: flat_map row2l f ++ flat_map row2l g.

(* Processor simulated: outputs (crc, match_detected) before the first edge and after every edge *)
Definition k_hw (a : algo) (d : Z) (cs : list cycle) : list Z :=
  hw_crc a (init a) :: b2l (hw_match a (init a)) ::
  flat_map (fun o => [fst o; b2l (snd o)]) (hw_trace a d cs).

(* message then trailer built by the model's `trailer` from the model's CRC, every word valid *)
Definition k_trailer (a : algo) (d : Z) (k : Z) (ws : list Z) : list Z :=
  trailer a d (Z.to_nat k) (compute_raw a d ws).

(* published table entry i: parameters, check and residue as committed, and as computed by the model *)
Definition k_table_entry (i : Z) : list Z :=
  match nth_error reveng_table (Z.to_nat i) with
  | Some (a, (chk, res)) =>
      [cw a; poly a; init a; b2l (refin a); b2l (refout a); xorout a; chk; res;
       compute_raw a 8 check_msg; residue a; williams a (message_bits a 8 check_msg)]
  | None => []
  end.
Definition k_table_len : list Z := [Z.of_nat (length reveng_table)].

(* message ++ (model trailer of the model CRC, xor-ed word by word with tx), start with the first word, all valid:
   trailer words, trace, and 1 iff the final match_detected is as expected (tx all zero <-> match), the
   expectation being applied for odd polynomials only (see C16_no_false_match / _refuted) *)
Definition k_match (a : algo) (d k : Z) (ws tx : list Z) : list Z :=
  let t := map (fun p => Z.lxor (fst p) (snd p)) (combine (trailer a d (Z.to_nat k) (compute_raw a d ws)) tx) in
  let cs := match ws ++ t with [] => [] | x :: r => Cy true true x :: map (Cy false true) r end in
  let tr := hw_trace a d cs in
  let final := snd (last tr (0, false)) in
  let expected := forallb (fun x => x =? 0) tx in
  t ++ hw_crc a (init a) :: b2l (hw_match a (init a)) :: flat_map (fun o => [fst o; b2l (snd o)]) tr ++
  [b2l (if Z.odd (poly a) then Bool.eqb final expected else true)].

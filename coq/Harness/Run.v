(* Run.v — generic comparison of model answers with observed implementation answers.
   Every case is (model answer, observed answer), both encoded as lists of integers. *)
From Coq Require Import ZArith List Bool.
Import ListNotations.
Open Scope Z_scope.

Fixpoint zlist_eqb (a b : list Z) : bool :=
  match a, b with
  | [], [] => true
  | x :: a', y :: b' => (x =? y) && zlist_eqb a' b'
  | _, _ => false
  end.

(* indices (and model answers) of the cases where model and implementation differ *)
Fixpoint mism_from (i : Z) (cs : list (list Z * list Z)) : list (Z * list Z) :=
  match cs with
  | [] => []
  | (m, o) :: r => if zlist_eqb m o then mism_from (i + 1) r else (i, m) :: mism_from (i + 1) r
  end.
Definition mism := mism_from 0.

Definition b2l (b : bool) : Z := if b then 1 else 0.
Definition opt_list (o : option (list Z)) : list Z := match o with Some l => 1 :: l | None => [0] end.

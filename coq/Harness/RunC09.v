(* RunC09.v — executable wrappers (model answers as lists of integers) for the C09 cases. *)
From Coq Require Import ZArith List Bool.
From V.Model Require Export Repro.
From V.Harness Require Import Run.
Import ListNotations.
Open Scope Z_scope.

Definition enc_name (n : name) : list Z := zlen n :: n.
Definition enc_names (l : list name) : list Z := zlen l :: concat (map enc_name l).
Definition enc_amap (m : amap) : list Z := zlen m :: concat (map (fun kv => fst kv :: enc_name (snd kv)) m).
Definition enc_members (l : list (name * list Z)) : list Z :=
  zlen l :: concat (map (fun kv => enc_name (fst kv) ++ enc_name (snd kv)) l).

(* Fragment.prepare on a design whose fragment tree is `f` with user ports `uports`
   (explicit name or None, conn.name): [1; created domains (order of the missing_domain calls);
   final port names in order] (`top`: the submodule tree, from which the IO ports used are listed in first-use order);
   then, per generated module (`mods`), the keys of Fragment.statements in order | [-1; 1] AssertionError | [-1; 2] TypeError *)
Definition k_dom (f : frag) (uports : list (option name * name)) (top : kid)
                 (mods : list (list (list (name * name)) * list name)) : list Z :=
  let ds := create_missing_sorted (missing_set f) in
  let ioports := io_kid top in
  (* prepare: user ports, then clk/rst of the created domains; Design._add_io_ports appends the IO ports *)
  match assign_port_names (uports ++ map (fun n => (None, n)) (new_ports ds) ++ map (fun n => (None, n)) ioports) with
  | Ok l => 1 :: enc_names ds ++ enc_names l
                ++ concat (map (fun p => enc_names (stmt_keys (fst p) (snd p))) mods)
  | AssertErr => [-1; 1]
  | TypeErr => [-1; 2]
  end.

(* a run of _add_name calls on a set that initially holds `init` *)
Definition k_addnames (init ns : list name) : list Z :=
  match add_names (fold_left (fun a x => set_add x a) init []) ns with
  | Some (out, a) => 1 :: enc_names out ++ [zlen a]
  | None => [-1; 1]
  end.

Definition k_portnames (ports : list (option name * name)) : list Z :=
  match assign_port_names ports with
  | Ok l => 1 :: enc_names l
  | AssertErr => [-1; 1]
  | TypeErr => [-1; 2]
  end.

(* Design._assign_names on one fragment *)
Definition k_names (tports : list tport) (sigs ios : list (Z * name)) (subs : list (option name * name)) : list Z :=
  match assign_names tports sigs ios subs with
  | Some r => 1 :: enc_amap (nm_signals r) ++ enc_amap (nm_ios r) ++ enc_names (nm_subs r)
  | None => [-1; 1]
  end.

(* a BuildPlan built by add_file calls, extracted into a directory that already holds `pre`:
   [1; digest input; archive members (name, bytes, date_time = 1980-01-01 00:00:00, compress_type = stored);
    sorted listing after extract() | -1; 1 (extract asserts on a ".." component)]
   | [-1; 1] duplicate file name (assert) | [-1; 3] absolute file name (ValueError) *)
Fixpoint add_files (fs : files) (adds : list (name * content)) : fres :=
  match adds with
  | [] => FOk fs
  | (k, c) :: r => match add_file_checked fs k c with FOk fs' => add_files fs' r | e => e end
  end.
Definition listing (d : dir) : list (name * list Z) :=
  map (fun k => (k, match find (fun e => name_eqb k (fst e)) d with Some e => snd e | None => [] end))
      (sort (map fst d)).
Definition enc_archive (l : list (name * list Z)) : list Z :=
  zlen l :: concat (map (fun kv => enc_name (fst kv) ++ enc_name (snd kv) ++ [1980; 1; 1; 0; 0; 0; 0]) l).
Definition k_plan (pre : dir) (adds : list (name * content)) (script : name) : list Z :=
  match add_files [] adds with
  | FAssert => [-1; 1]
  | FValue => [-1; 3]
  | FOk fs => 1 :: enc_name (digest_input fs script) ++ enc_archive (archive_members fs)
                ++ match extract_checked pre fs with
                   | Some d => enc_members (listing d)
                   | None => [-1; 1]
                   end
  end.

(* reset *)
Definition enc_slot (s : slot) : list Z :=
  match s with
  | SSig g => [0; sg_init g; sg_curr g; sg_next g; sg_wakers g]
  | SMem m => [1] ++ enc_name (mm_init m) ++ enc_name (mm_data m)
              ++ [zlen (mm_wq m)] ++ concat (map (fun p => [fst p; snd p]) (mm_wq m)) ++ [mm_wakers m]
  end.
Definition enc_proc (p : proc) : list Z :=
  match p with
  | PRtl c r k => [0; b2l c; b2l r; b2l k]
  | PClock ph pe r k i => [1; ph; pe; b2l r; b2l k; b2l i]
  | PAsync bg r k fa w pc => [2; b2l bg; b2l r; b2l k; b2l fa; w; pc]
  end.
Definition enc_engine (e : engine) : list Z :=
  [zlen (e_slots e)] ++ concat (map enc_slot (e_slots e))
  ++ enc_name (e_pending e) ++ [e_now e] ++ enc_name (map snd (e_wakers e))
  ++ [zlen (e_procs e)] ++ concat (map enc_proc (e_procs e))
  ++ [zlen (e_tbs e)] ++ concat (map enc_proc (e_tbs e))
  ++ [e_delta e; zlen (e_active e); b2l (e_running e)].
(* [1 (= the state before reset was reproduced)] ++ state after reset() *)
Definition k_reset (e : engine) : list Z := 1 :: enc_engine (reset e).

(* the constructor state of a new simulator of the same design (its first `n` slots: a simulator that has not
   run yet has not allocated the slots of signals only a testbench touches), every field of Repro.observe plus
   _delta_cycles; the slots' waker counts are not part of it *)
Definition enc_slot_nw (s : slot) : list Z :=
  match s with
  | SSig g => [0; sg_init g; sg_curr g; sg_next g]
  | SMem m => [1] ++ enc_name (mm_init m) ++ enc_name (mm_data m)
              ++ [zlen (mm_wq m)] ++ concat (map (fun p => [fst p; snd p]) (mm_wq m))
  end.
Definition k_fresh (n : Z) (e : engine) : list Z :=
  let f := fresh e in
  [1; Z.min n (zlen (e_slots f))] ++ concat (map enc_slot_nw (firstn (Z.to_nat n) (e_slots f)))
  ++ enc_name (e_pending f) ++ [e_now f] ++ enc_name (map snd (e_wakers f))
  ++ [zlen (e_procs f)] ++ concat (map enc_proc (e_procs f))
  ++ [zlen (e_tbs f)] ++ concat (map enc_proc (e_tbs f))
  ++ [e_delta f; zlen (e_active f); b2l (e_running f)].

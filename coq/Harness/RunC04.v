(* RunC04.v — executable wrappers for C04 (RTLIL documents run under a stimulus; operator lowering models). *)
From Coq Require Import ZArith List Bool.
From V.Model Require Export Bits Shape Ast Denote RtlilSem.
From V.Harness Require Import Run.
Import ListNotations.
Open Scope Z_scope.

(* Layer B: the document read from the emitted text, observation points (named signals, then top-level output
   port wires), initial input values, stimulus.  One row per settle: status, then the observations. *)
Definition k_run (d : doc) (obs : list (option (list nat * nat * Z))) (ports : list (list nat * nat * Z))
                 (init_ins : list (nat * Z)) (stim : list (list (nat * Z))) : list Z :=
  run d (obs ++ map (fun p => Some p) ports) init_ins stim.

(* RunC04.v — executable wrappers for C04 (RTLIL documents run under a stimulus; operator lowering models). *)
From Coq Require Import ZArith List Bool.
From V.Model Require Export Bits Shape Ast Denote RtlilSem.
From V.Harness Require Import Run.
Import ListNotations.
Open Scope Z_scope.

(* Layer B: the document read from the emitted text, observation points (named signals, then top-level output
   port wires), initial input values, stimulus.  One row per settle: status, then the observations. *)
Definition k_run (alt obsmem : bool) (d : doc) (obs : list (option (list nat * nat * Z)))
                 (ports : list (list nat * nat * Z)) (init_ins : list (nat * Z)) (stim : list sstep) : list Z :=
  let o := obs ++ map (fun p => Some p) ports in
  let sf := SHIFT_SIGNED_FILLS_SIGN in
  run_gen sf obsmem d o init_ins stim ++
  (* designs with a part-select of a signed value: the same run under the OTHER reading of $shift, after -6
     (lets the harness tell finding C04-part-select-signed-shift-zero-fill from any other disagreement) *)
  (if alt then -6 :: run_gen (negb sf) obsmem d o init_ins stim else []).

(* ---- AssignmentList lowering (emit_value, emit_assignment_list) on data read from the real netlist ---- *)
(* nets: 0 / 1 = constants, n >= 2 = net number n - 2 *)
Definition nets_of (l : list Z) : list net :=
  map (fun z => if z <? 2 then NC (z =? 1) else NV (Z.to_nat (z - 2))) l.
Definition enc_nets (l : list net) : list Z :=
  map (fun n => match n with NC b => if b then 1 else 0 | NV i => Z.of_nat i + 2 end) l.
(* patterns: 0, 1, 2 = '-' ; MSB first *)
Definition pat_of (l : list Z) : pattern := map (fun z => if z =? 2 then None else Some (z =? 1)) l.
Definition enc_pat (p : pattern) : list Z :=
  Z.of_nat (length p) :: map (fun b => match b with None => 2 | Some true => 1 | Some false => 0 end) p.
(* conditions: (0, _) = const 1 ; (k + 1, bit) = output bit of Match cell k *)
Definition cnd_of (p : Z * Z) : cnd := if fst p =? 0 then CTrue else CM (Z.to_nat (fst p - 1)) (Z.to_nat (snd p)).
Definition enc_cnd (c : cnd) : list Z := match c with CTrue => [0; 0] | CM k b => [Z.of_nat k + 1; Z.of_nat b] end.
Definition mtab_of (l : list (Z * Z * list Z * list (list (list Z)))) : mtab :=
  map (fun m => let '(en, sel, pats) := m in MC (cnd_of en) (nets_of sel) (map (map pat_of) pats)) l.
Definition nas_of (l : list (Z * Z * Z * list Z)) : list nassign :=
  map (fun a => let '(c, s, v) := a in NA (cnd_of c) s (nets_of v)) l.

(* shape of a process body: assign = [0; start; width] ; switch = [1; selector width; #cases; per case: #patterns,
   patterns, #statements, statements] *)
Fixpoint enc_pt (t : ptree) : list Z :=
  match t with
  | PA s v => [0; (if nlen v =? 0 then 0 else s); nlen v]    (* the text does not show the offset of a zero-width assign *)
  | PS sel cs =>
      [1; nlen sel; Z.of_nat (length cs)] ++
      (fix go (cs : list (list pattern * list ptree)) : list Z :=
         match cs with
         | [] => []
         | c :: cs' =>
             (Z.of_nat (length (fst c)) :: flat_map enc_pat (fst c)) ++
             (Z.of_nat (length (snd c)) ::
              (fix run (ts : list ptree) : list Z :=
                 match ts with [] => [] | t' :: ts' => enc_pt t' ++ run ts' end) (snd c)) ++ go cs'
         end) cs
  end.

(* every AssignmentList cell of a design: the process emit_assignment_list builds, -5 after each; [-1] = its assert *)
Definition k_alists (tab : list (Z * Z * list Z * list (list (list Z))))
                    (cells : list (list Z * list (Z * Z * Z * list Z))) : list Z :=
  flat_map (fun c => match emit_assignment_list (mtab_of tab) (nets_of (fst c)) (nas_of (snd c)) with
                     | Some ts => flat_map enc_pt ts ++ [-5]
                     | None => [-1; -5]
                     end) cells.

(* NetlistDriver.emit_value calls: (chunk start, chunk end, nets of the signal's default, the driver's assignments):
   default nets, -7, then per kept assignment cond, start, width, nets ; -8 after each call *)
Definition k_emit_values (calls : list (Z * Z * list Z * list (Z * Z * Z * list Z))) : list Z :=
  flat_map (fun c => let '(cs, ce, sig, l) := c in
                     let '(d, kept) := emit_value cs ce (nets_of sig) (nas_of l) in
                     enc_nets d ++ [-7] ++
                     flat_map (fun a => enc_cnd (na_cond a) ++ [na_start a; nlen (na_val a)] ++ enc_nets (na_val a)) kept
                     ++ [-8]) calls.

Definition k_al (tab : list (Z * Z * list Z * list (list (list Z))))
                (cells : list (list Z * list (Z * Z * Z * list Z)))
                (calls : list (Z * Z * list Z * list (Z * Z * Z * list Z))) : list Z :=
  k_alists tab cells ++ [-9] ++ k_emit_values calls.

(* ---- the cells the lowering models choose, on operands made of distinct nets (signals) or constants ---- *)
Definition opd_nets (base : nat) (w : Z) (cst : option Z) : list net :=
  match cst with
  | None => map (fun i => NV (base + i)) (seq 0 (Z.to_nat w))
  | Some v => map (fun i => NC (Z.testbit v (Z.of_nat i))) (seq 0 (Z.to_nat w))
  end.

(* one entry: operand a (width, signed, constant?) and operand b; the descriptor of the cell emitted for `a o b` *)
Definition k_cell2 (o : op2) (entries : list (Z * bool * option Z * (Z * bool * option Z))) : list Z :=
  flat_map (fun e =>
    let '(wa, sa, ca, (wb, sb, cb)) := e in
    let '(n, a', b') := ir_op2 o (opd_nets 0 wa ca) sa (opd_nets 100 wb cb) sb in
    cell_desc2 n a' b' ++ [-5]) entries.

Definition k_cell1 (o : op1) (entries : list (Z * bool * option Z)) : list Z :=
  flat_map (fun e =>
    let '(wa, sa, ca) := e in
    let a := opd_nets 0 wa ca in
    (match o with
     | ONeg => cell_desc1 N1Neg (extend a sa (nlen a + 1))
     | ONot => cell_desc1 N1Not a
     | OBool => cell_desc1 N1Bool a
     | ORor => cell_desc1 N1Ror a
     | ORand => cell_desc1 N1Rand a
     | ORxor => cell_desc1 N1Rxor a
     | OU | OS => []
     end) ++ [-5]) entries.

(* part-select: value (width, signed), offset width, result width, stride *)
Definition k_cellpart (entries : list (Z * bool * Z * Z * Z)) : list Z :=
  flat_map (fun e =>
    let '(wv, sv, wo, w, st) := e in
    part_desc (opd_nets 0 wv None) sv (opd_nets 100 wo None) w st ++ [-5]) entries.

(* ---- _ir.emit_assign on generated targets: selectors are signals, slices of signals or constants ---- *)
Definition sel_nets (tabn : list (list Z)) (e : expr) : list net :=
  match e with
  | ESig i _ => nets_of (nth i tabn [])
  | ESlice (ESig i _) lo hi => nslice (nets_of (nth i tabn [])) lo hi
  | EConst v s => map (fun k => NC (Z.testbit v (Z.of_nat k))) (seq 0 (Z.to_nat (width s)))
  | _ => []
  end.

Fixpoint enc_acond (c : acond) : list Z :=
  match c with
  | ATrue => [0]
  | AMatch en sel pats bit =>
      1 :: enc_acond en ++ [nlen sel] ++ enc_nets sel ++ [Z.of_nat (length pats)] ++
      flat_map (fun pl => Z.of_nat (length pl) :: flat_map enc_pat pl) pats ++ [Z.of_nat bit]
  end.

(* per target: for every signal (in index order) the Assignments appended to its driver: condition chain, start,
   width, nets, -4 ; -5 after each signal ; -8 after each target *)
Definition k_emit_assign (tabn : list (list Z)) (targets : list (expr * list Z)) : list Z :=
  flat_map (fun t =>
    let l := emit_assign (sel_nets tabn) (fst t) 0 (nets_of (snd t)) ATrue in
    flat_map (fun i =>
      flat_map (fun a => if Nat.eqb (wa_sig a) i
                         then enc_acond (wa_cond a) ++ [wa_start a; nlen (wa_val a)] ++ enc_nets (wa_val a) ++ [-4]
                         else []) l ++ [-5]) (seq 0 (length tabn)) ++ [-8]) targets.

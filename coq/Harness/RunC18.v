(* RunC18.v — executable wrappers (model answers as lists of integers) for the C18 cases. *)
From Coq Require Import ZArith List Bool.
From V.Model Require Export Bits Io.
From V.Harness Require Import Run.
Import ListNotations.
Open Scope Z_scope.

Definition dir_code (d : dir) : Z := match d with DIn => 0 | DOut => 1 | DBidir => 2 end.
Definition kind_code (k : kind) : Z := match k with KSim => 0 | KSingle => 1 | KDiff => 2 end.
Definition err_code (e : err) : Z := match e with EIndex => 1 | EValue => 2 | EType => 3 | EConflict => 4 end.
Definition res_list (r : res (list Z)) : list Z := match r with Ok l => 1 :: l | Err e => [0; err_code e] end.
Definition nz (n : nat) : Z := Z.of_nat n.
Definition refs_list (l : list ref) : list Z := flat_map (fun r => [nz (fst r); nz (snd r)]) l.

(* port algebra: kind, direction, len, invert tuple, wires *)
Definition k_port (bds : list bdesc) (e : pexpr) : list Z :=
  res_list (bind (mk_env bds) (fun env => bind (peval env e) (fun p =>
    Ok ([kind_code (p_kind p); dir_code (p_dir p); zlen (p_refs p); zlen (p_nrefs p); zlen (p_inv p)]
        ++ map b2l (p_inv p) ++ refs_list (p_refs p) ++ refs_list (p_nrefs p))))).

(* o / oe signals of the base simulation ports that have them *)
Definition obs_bases (env : list port) (st : bstate) : list Z :=
  flat_map (fun p => if dir_eqb (p_dir p) DIn then [] else [read_cat st (p_refs p)]) env.

Definition obs_comb (env : list port) (r : pstate * Z) : list Z :=
  obs_bases env (s_o (fst r)) ++ obs_bases env (s_oe (fst r)) ++ [snd r].

(* Buffer(bd, e) simulated; steps = (o, oe, values of the base ports' i) *)
Definition k_buf (bds : list bdesc) (e : pexpr) (bd : dir) (steps : list (Z * Z * list Z)) : list Z :=
  res_list (bind (mk_env bds) (fun env => bind (peval env e) (fun p =>
    bind (buffer_check bd (p_dir p)) (fun _ =>
    Ok (flat_map (fun s => let '(o, oe, iv) := s in
                           obs_comb env (buffer_comb bd p o oe (init_pstate env iv))) steps))))).

(* FFBuffer(bd, e, i_domain=, o_domain=); steps = (o, oe, i values, edge of i_domain, edge of o_domain) *)
Fixpoint ff_run (env : list port) (bd : dir) (p : port) (s : ffst)
                (steps : list (Z * Z * list Z * bool * bool)) : list Z :=
  match steps with
  | [] => []
  | (o, oe, iv, ei, eo) :: r =>
      let st := init_pstate env iv in
      let s' := ff_edge bd p ei eo o oe st s in
      obs_bases env (s_o (fst (ff_comb bd p s' st))) ++ obs_bases env (s_oe (fst (ff_comb bd p s' st)))
        ++ [f_i s'] ++ ff_run env bd p s' r
  end.

Definition k_ff (bds : list bdesc) (e : pexpr) (bd : dir) (idom odom : bool)
                (steps : list (Z * Z * list Z * bool * bool)) : list Z :=
  res_list (bind (mk_env bds) (fun env => bind (peval env e) (fun p =>
    bind (ffbuffer_check bd (p_dir p) idom odom) (fun _ => Ok (ff_run env bd p ff_init steps))))).

(* netlist of Buffers on real ports *)
Fixpoint eval_bufs (env : list port) (bufs : list (dir * pexpr)) : res (list (dir * port)) :=
  match bufs with
  | [] => Ok []
  | (bd, e) :: r => bind (peval env e) (fun p => bind (buffer_check bd (p_dir p)) (fun _ =>
                    bind (eval_bufs env r) (fun l => Ok ((bd, p) :: l))))
  end.

Definition enc_cell (c : cell) : list Z :=
  [dir_code (c_dir c); zlen (c_port c)] ++ refs_list (c_port c) ++ [zlen (c_o c)]
  ++ flat_map (fun b => [nz (ob_k b); b2l (ob_inv b)]) (c_o c).
Definition enc_buf (bp : dir * port) : list Z :=
  let '(cs, ib) := buffer_cells (fst bp) (snd bp) in
  [zlen cs] ++ flat_map enc_cell cs ++ [zlen ib]
  ++ flat_map (fun b => [nz (ib_cell b); nz (ib_bit b); b2l (ib_inv b)]) ib.

Definition k_net (bds : list bdesc) (bufs : list (dir * pexpr)) : list Z :=
  res_list (bind (mk_env bds) (fun env => bind (eval_bufs env bufs) (fun bps =>
    bind (build_netlist bps) (fun cells => Ok (zlen cells :: flat_map enc_buf bps))))).

(* RunC18.v — executable wrappers (model answers as lists of integers) for the C18 cases. *)
From Coq Require Import ZArith List Bool.
From V.Model Require Export Bits Io.
From V.Harness Require Import Run.
Import ListNotations.
Open Scope Z_scope.

Definition dir_code (d : dir) : Z := match d with DIn => 0 | DOut => 1 | DBidir => 2 end.
Definition kind_code (k : kind) : Z := match k with KSim => 0 | KSingle => 1 | KDiff => 2 end.
Definition err_code (e : err) : Z := match e with EIndex => 1 | EValue => 2 | EType => 3 | EConflict => 4 end.
Definition dom_code (d : option dom) : Z := match d with None => 0 | Some DSync => 1 | Some DA => 2 | Some DB => 3 end.
Definition res_list (r : res (list Z)) : list Z := match r with Ok l => 1 :: l | Err e => [0; err_code e] end.
Definition nz (n : nat) : Z := Z.of_nat n.
Definition refs_list (l : list ref) : list Z := flat_map (fun r => [nz (fst r); nz (snd r)]) l.

(* the Value tree of a simulation port member: Signal -> 0 b w, Slice -> 1 lo hi v, Cat -> 2 n parts *)
Fixpoint enc_lv (v : lval) : list Z :=
  match v with
  | LSig b w => [0; nz b; nz w]
  | LSlice v lo hi => [1; nz lo; nz hi] ++ enc_lv v
  | LCat ps => [2; zlen ps] ++ (fix go (ps : list lval) : list Z :=
                                  match ps with [] => [] | p :: r => enc_lv p ++ go r end) ps
  end.

(* port algebra: kind, direction, len, invert tuple, wires; for simulation ports also the Value tree *)
Definition k_port (bds : list bdesc) (e : pexpr) : list Z :=
  res_list (bind (mk_env bds) (fun env => bind (peval env e) (fun p =>
    Ok ([kind_code (p_kind p); dir_code (p_dir p); zlen (p_refs p); zlen (p_nrefs p); zlen (p_inv p)]
        ++ map b2l (p_inv p) ++ refs_list (p_refs p) ++ refs_list (p_nrefs p)
        ++ match p_kind p with KSim => enc_lv (peval_lv env e) | _ => [] end)))).

(* o / oe signals of the base simulation ports that have them *)
Definition obs_bases (env : list port) (st : bstate) : list Z :=
  flat_map (fun p => if dir_eqb (p_dir p) DIn then [] else [read_cat st (p_refs p)]) env.

Definition obs_comb (env : list port) (r : pstate * Z) : list Z :=
  obs_bases env (s_o (fst r)) ++ obs_bases env (s_oe (fst r)) ++ [snd r].

(* The answer is the per-bit (specified) behaviour.  When the simulator's lowering of the port's Value tree
   (finding C18-SIM-LHS-ALIAS) predicts something else, that prediction follows after the marker -7, so that the
   harness can recognise the finding exactly (observation = prediction) and nothing else. *)
Definition with_sim (flat sim : list Z) : list Z :=
  if zlist_eqb flat sim then flat else flat ++ (-7) :: sim.

(* Buffer(bd, e) simulated; steps = (o, oe, values of the base ports' i) *)
Definition buf_trace (env : list port) (cmb : Z -> Z -> pstate -> pstate * Z) (steps : list (Z * Z * list Z)) : list Z :=
  flat_map (fun s => let '(o, oe, iv) := s in obs_comb env (cmb o oe (init_pstate env iv))) steps.

Definition k_buf (bds : list bdesc) (e : pexpr) (bd : dir) (steps : list (Z * Z * list Z)) : list Z :=
  res_list (bind (mk_env bds) (fun env => bind (peval env e) (fun p =>
    bind (buffer_check bd (p_dir p)) (fun _ =>
    Ok (with_sim (buf_trace env (buffer_comb bd p) steps)
                 (buf_trace env (buffer_comb_lv bd p (peval_lv env e)) steps)))))).

(* FFBuffer(bd, e, i_domain=, o_domain=); steps = (o, oe, i values, which clocks tick) *)
Fixpoint ff_run (env : list port) (cmb : Z -> Z -> pstate -> pstate * Z) (w : Z) (bd : dir)
                (doms : option dom * option dom) (s : ffst) (steps : list (Z * Z * list Z * ticks)) : list Z :=
  match steps with
  | [] => []
  | (o, oe, iv, t) :: r =>
      let st := init_pstate env iv in
      let s' := ff_edge_with cmb w bd (dom_ticks t (fst doms)) (dom_ticks t (snd doms)) o oe st s in
      let c := cmb (f_o s') (f_oe s') st in
      obs_bases env (s_o (fst c)) ++ obs_bases env (s_oe (fst c)) ++ [f_i s'] ++ ff_run env cmb w bd doms s' r
  end.

Definition k_ff (bds : list bdesc) (e : pexpr) (bd : dir) (idom odom : option dom)
                (steps : list (Z * Z * list Z * ticks)) : list Z :=
  res_list (bind (mk_env bds) (fun env => bind (peval env e) (fun p =>
    bind (ffbuffer_init bd (p_dir p) idom odom) (fun doms =>
    Ok (with_sim (ff_run env (buffer_comb bd p) (plen p) bd doms ff_init steps)
                 (ff_run env (buffer_comb_lv bd p (peval_lv env e)) (plen p) bd doms ff_init steps)))))).

(* several Buffers in one simulated design *)
Fixpoint eval_bufs (env : list port) (bufs : list (dir * pexpr)) : res (list (dir * port)) :=
  match bufs with
  | [] => Ok []
  | (bd, e) :: r => bind (peval env e) (fun p => bind (buffer_check bd (p_dir p)) (fun _ =>
                    bind (eval_bufs env r) (fun l => Ok ((bd, p) :: l))))
  end.

Fixpoint multi_drive (bps : list (dir * port)) (oes : list (Z * Z)) (st : pstate) : pstate :=
  match bps, oes with
  | (bd, p) :: r, (o, oe) :: r' => multi_drive r r' (fst (buffer_comb bd p o oe st))
  | _, _ => st
  end.
Fixpoint multi_i (bps : list (dir * port)) (oes : list (Z * Z)) (st : pstate) : list Z :=
  match bps, oes with
  | (bd, p) :: r, (o, oe) :: r' => snd (buffer_comb bd p o oe st) :: multi_i r r' st
  | _, _ => []
  end.

Definition k_multi (bds : list bdesc) (bufs : list (dir * pexpr)) (steps : list (list (Z * Z) * list Z)) : list Z :=
  res_list (bind (mk_env bds) (fun env => bind (eval_bufs env bufs) (fun bps =>
    Ok (flat_map (fun s => let '(oes, iv) := s in
                           let stf := multi_drive bps oes (init_pstate env iv) in
                           obs_bases env (s_o stf) ++ obs_bases env (s_oe stf) ++ multi_i bps oes stf) steps)))).

(* netlist of Buffers / FFBuffers on real ports; ff = Some (i_domain, o_domain) for an FFBuffer *)
Definition nbuf := (dir * pexpr * option (option dom * option dom))%type.
Fixpoint eval_nbufs (env : list port) (bufs : list nbuf)
  : res (list (dir * port * ((nat * option dom) * (nat * option dom)))) :=
  match bufs with
  | [] => Ok []
  | (bd, e, ff) :: r =>
      bind (peval env e) (fun p =>
      bind (match ff with
            | None => bind (buffer_check bd (p_dir p)) (fun _ => Ok ((0%nat, None), (0%nat, None)))
            | Some (i, o) => bind (ffbuffer_init bd (p_dir p) i o) (fun d => Ok (ff_regs d))
            end) (fun regs =>
      bind (eval_nbufs env r) (fun l => Ok ((bd, p, regs) :: l))))
  end.

Definition enc_cell (c : cell) : list Z :=
  [dir_code (c_dir c); zlen (c_port c)] ++ refs_list (c_port c) ++ [zlen (c_o c)]
  ++ flat_map (fun b => [nz (ob_k b); b2l (ob_inv b)]) (c_o c).
Definition enc_buf (x : dir * port * ((nat * option dom) * (nat * option dom))) : list Z :=
  let '(bd, p, (ro, ri)) := x in
  let '(cs, ib) := buffer_cells bd p in
  [zlen cs] ++ flat_map enc_cell cs ++ [zlen ib]
  ++ flat_map (fun b => [nz (ib_cell b); nz (ib_bit b); b2l (ib_inv b)]) ib
  ++ [nz (fst ro); dom_code (snd ro)]
  (* the i register of a zero-width buffer drives no net: nothing is observable in the netlist *)
  ++ (if Nat.eqb (length (p_refs p)) 0 then [0; 0] else [nz (fst ri); dom_code (snd ri)]).

Definition k_net (bds : list bdesc) (bufs : list nbuf) : list Z :=
  res_list (bind (mk_env bds) (fun env => bind (eval_nbufs env bufs) (fun bps =>
    bind (build_netlist (map fst bps)) (fun cells => Ok (zlen cells :: flat_map enc_buf bps))))).

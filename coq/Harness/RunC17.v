(* RunC17.v — executable wrappers (model answers as lists of integers) for the C17 cases.
   A harness step is a GROUP of model events applied at one instant (e.g. [Ein v; Eo] = the input
   changes in the same ctx.set as the clock rises); the output is recorded after every group. *)
From Coq Require Import ZArith List Bool.
From V.Model Require Export Bits Cdc.
From V.Harness Require Import Run.
Import ListNotations.
Open Scope Z_scope.

Section Trace.
  Context {S E : Type} (step : S -> E -> S) (out : S -> Z).
  Fixpoint trace (s : S) (gs : list (list E)) : list Z :=
    match gs with
    | [] => []
    | g :: r => let s' := fold_left step g s in out s' :: trace s' r
    end.
End Trace.

(* step [kind, v] of the harness -> group of model events *)
Definition g (kind : Z) : list event :=
  match kind with 1 => [Eo] | 2 => [Ei] | 3 => [Eb] | 4 => [Enop] | _ => [] end.
Definition gv (kind v : Z) : list event := Ein v :: g kind.

(* Wire format.  Long list literals and long number literals are slow to parse, so the steps and
   the output trace travel as lists of chunks of at most 60 bits.
   step code = kind + 8 * f on 3 + fb bits, f = 0 (input not driven) or v + off; first step in the low bits.
   output code = value + ooff on ob bits. *)
Fixpoint unchunk (per : nat) (bits c : Z) : list Z :=
  match per with
  | O => []
  | S p => Z.land c (2 ^ bits - 1) :: unchunk p bits (Z.shiftr c bits)
  end.
Definition per_chunk (bits : Z) : nat := Z.to_nat (60 / bits).
Definition dec_step (off c : Z) : list event :=
  let f := Z.shiftr c 3 in
  (if f =? 0 then [] else [Ein (f - off)]) ++ g (Z.land c 7).
(* U fb off n chunks = the n steps *)
Definition U (fb off : Z) (n : nat) (chunks : list Z) : list (list event) :=
  map (dec_step off) (firstn n (flat_map (unchunk (per_chunk (3 + fb)) (3 + fb)) chunks)).

Fixpoint pack1 (bits off : Z) (l : list Z) : Z :=
  match l with [] => 0 | v :: r => (v + off) + 2 ^ bits * pack1 bits off r end.
Fixpoint chunked (fuel per : nat) (l : list Z) : list (list Z) :=
  match fuel with
  | O => []
  | S f => match l with [] => [] | _ => firstn per l :: chunked f per (skipn per l) end
  end.
Definition pack (bits off : Z) (l : list Z) : list Z :=
  map (pack1 bits off) (chunked (length l) (per_chunk bits) l).

Definition nz (n : nat) : Z := Z.of_nat n.

(* FFSynchronizer(i, o, stages[, init]) with o : Shape(w, sg) and i = a (inv = false) or i = ~a
   (inv = true) for a driven Signal a : Shape(w, sg) with init a0; the steps drive a.
   init = None: the constructor is called without init=.
   answer = 1 (the slot where the implementation side reports its shift-register monitor), then the
   packed [o initially; o after every group] *)
Definition in_expr (sh : shape) (inv : bool) (a : Z) : Z := if inv then Z.lnot (norm sh a) else a.
Definition expr_event (sh : shape) (inv : bool) (e : event) : event :=
  match e with Ein v => Ein (in_expr sh inv v) | _ => e end.
Definition k_ff (w : Z) (sg : bool) (ow : Z) (osg : bool) (stages : nat) (init : option Z) (inv : bool) (a0 : Z)
                (gs : list (list event)) : list Z :=
  let sh := Sh w sg in
  let osh := Sh ow osg in
  let s0 := ff_start sh stages init (in_expr sh inv a0) in
  1 :: pack (ow + 1) (2 ^ ow) (ff_out_as osh s0 :: trace (ff_step sh) (ff_out_as osh) s0 (map (map (expr_event sh inv)) gs)).

(* FFSynchronizer(..., reset_less=rl) in an output domain whose rst is driven by the testbench
   (async = ClockDomain(async_reset=True)).  Step kinds of this family: 0 none, 1 output edge,
   4 inactive edges, 5 rst:=1, 6 rst:=0, 7 rst:=1 in the same ctx.set as the edge, 2 rst:=0 in the
   same ctx.set as the edge *)
Definition gr (kind : Z) : list revent :=
  match kind with
  | 1 => [Rev Eo] | 4 => [Rev Enop] | 5 => [Rrst true] | 6 => [Rrst false]
  | 7 => [Rrst true; Rev Eo] | 2 => [Rrst false; Rev Eo] | _ => []
  end.
Definition dec_rstep (off c : Z) : list revent :=
  let f := Z.shiftr c 3 in
  (if f =? 0 then [] else [Rev (Ein (f - off))]) ++ gr (Z.land c 7).
Definition UR (fb off : Z) (n : nat) (chunks : list Z) : list (list revent) :=
  map (dec_rstep off) (firstn n (flat_map (unchunk (per_chunk (3 + fb)) (3 + fb)) chunks)).
Definition k_ffr (w : Z) (sg : bool) (stages : nat) (init : option Z) (async rl : bool) (i0 : Z)
                 (gs : list (list revent)) : list Z :=
  let sh := Sh w sg in
  let s0 := ffr_start sh stages init i0 in
  let out := fun s => ff_out (fr_ff s) in
  1 :: pack (w + 1) (2 ^ w) (out s0 :: trace (ffr_step sh init async rl) out s0 gs).

(* AsyncFFSynchronizer(i, o, stages, async_edge) *)
Definition k_af (pos : bool) (stages : nat) (i0 : Z) (gs : list (list event)) : list Z :=
  let s0 := af_start stages i0 in
  1 :: pack 1 0 (b2l (af_out s0) :: trace (af_step pos) (fun s => b2l (af_out s)) s0 gs).

(* ResetSynchronizer(arst, domain, stages): observed on the reset signal of `domain` *)
Definition k_rs (stages : nat) (i0 : Z) (gs : list (list event)) : list Z := k_af true stages i0 gs.

(* PulseSynchronizer(i_domain, o_domain, stages): the number of input pulses, the number of output
   cycles with o = 1, the monitor slot, then the packed trace of o *)
Definition same_dom (same : bool) (e : event) : event :=
  if same then match e with Eo | Ei => Eb | _ => e end else e.
(* same = i_domain and o_domain are the same domain: every active edge is an edge of both *)
Definition k_ps (same : bool) (stages : nat) (i0 : Z) (gs0 : list (list event)) : list Z :=
  let gs := map (map (same_dom same)) gs0 in
  let s0 := ps_start stages i0 in
  let evs := concat gs in
  nz (in_pulses (ps_i s0) evs) :: nz (out_cycles s0 evs) :: 1 ::
  pack 1 0 (b2l (ps_out s0) :: trace ps_step (fun s => b2l (ps_out s)) s0 gs).

(* is the word admissible for pulse conservation (the implementation side computes the same
   predicate independently in Python) *)
Definition k_sep (i0 : Z) (gs : list (list event)) : list Z :=
  [b2l (separated (Z.odd i0) false (concat gs))].

(* RequirePosedge: comp = 0 ff, 1 af, 2 rs, 3 ps; is_pos = clk_edge of the output domain;
   [1] = elaborates, [0; 1] = DomainRequirementFailed *)
Definition k_posedge (comp : Z) (is_pos : bool) : list Z :=
  if requires_posedge comp && negb is_pos then [0; 1] else [1].

(* constructor: stages check *)
Definition k_stages (stages : Z) : list Z := [check_stages stages].

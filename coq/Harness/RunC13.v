(* RunC13.v — executable wrappers for the C13 (AsyncFIFO / AsyncFIFOBuffered) cases. *)
From Coq Require Import ZArith List Bool.
From V.Model Require Export Bits AsyncFifo.
From V.Harness Require Import Run.
Import ListNotations.
Open Scope Z_scope.

(* event word: code + 4*flags + 64*data; code 1 = W, 2 = R, 3 = WR;
   flags = w_en + 2*r_en + 4*write-domain rst + 8*read-domain rst *)
Definition dec_ev (x : Z) : ev * ain :=
  let c := x mod 4 in
  let f := (x / 4) mod 16 in
  ((if c =? 1 then EW else if c =? 2 then ER else EWR),
   mkIn (Z.odd f) (x / 64) (Z.odd (f / 2)) (Z.odd (f / 4)) (Z.odd (f / 8))).

(* observation after an event: w_rdy + 2*r_rdy + 4*r_rst + 8*(w_level + 64*(r_level + 64*r_data)) *)
Definition pack (wrdy rrdy rrst : bool) (wl rl rd : Z) : Z :=
  b2l wrdy + 2 * b2l rrdy + 4 * b2l rrst + 8 * (wl + 64 * (rl + 64 * rd)).

Definition a_obs (n : Z) (st : afifo) : Z :=
  pack (o_wrdy n st) (o_rrdy st) (o_rrst st) (o_wlevel st) (o_rlevel n st) (o_rdata st).
Definition b_obs (n : Z) (st : bfifo) : Z :=
  pack (bo_wrdy n st) (bo_rrdy st) (bo_rrst st) (bo_wlevel n st) (bo_rlevel st) (bo_rdata st).

Fixpoint a_trace (n width : Z) (st : afifo) (xs : list Z) : list Z :=
  match xs with
  | [] => []
  | x :: r => let '(e, i) := dec_ev x in
              let st' := async_step n width st e i in a_obs n st' :: a_trace n width st' r
  end.
Fixpoint b_trace (n width : Z) (st : bfifo) (xs : list Z) : list Z :=
  match xs with
  | [] => []
  | x :: r => let '(e, i) := dec_ev x in
              let st' := buf_step n width st e i in b_obs n st' :: b_trace n width st' r
  end.

(* exception class codes shared with harness/props/c13.py: 1 ValueError, 2 TypeError, 3 IndexError *)
Definition ctor (cls width depth : Z) (exact : bool) : ctor_res := ctor_full (negb (cls =? 0)) width depth exact.
Definition elab_ok (cls d : Z) : bool := if cls =? 0 then async_elab_ok d else async_buf_elab_ok d.

(* cls 0 = AsyncFIFO, 1 = AsyncFIFOBuffered.
   [0; c] = constructor raised class c; [2; depth'; 3] = elaboration raises IndexError;
   [1; depth'; obs...; verdict] where verdict is the answer of the interface monitor (overflow / wrong r_data /
   level out of range / not drained in time): 0 by the theorems of Props/C13.v *)
Definition k_trace (cls depth width : Z) (exact : bool) (xs : list Z) : list Z :=
  match ctor cls width depth exact with
  | CtorValueError => [0; 1]
  | CtorTypeError => [0; 2]
  | CtorOk d =>
      if negb (elab_ok cls d) then [2; d; 3]
      else if d =? 0 then 1 :: 0 :: map (fun _ => 0) xs ++ [0]
      else if cls =? 0 then let n := aceil_log2 d in 1 :: d :: a_trace n width (astate0 n) xs ++ [0]
      else let n := aceil_log2 (d - 1) in 1 :: d :: b_trace n width (bstate0 n) xs ++ [0]
  end.

(* SPECIFICATION answer for "construct, then elaborate": every constructible depth elaborates *)
Definition k_elab (cls width depth : Z) (exact : bool) : list Z :=
  match ctor cls width depth exact with
  | CtorValueError => [0; 1] | CtorTypeError => [0; 2] | CtorOk d => [1; d] end.
(* MODEL answer (faithful to the code): [1; depth'; 1] elaborates, [1; depth'; 0; 3] raises IndexError *)
Definition k_elab_model (cls width depth : Z) (exact : bool) : list Z :=
  match ctor cls width depth exact with
  | CtorValueError => [0; 1] | CtorTypeError => [0; 2]
  | CtorOk d => if elab_ok cls d then [1; d; 1] else [1; d; 0; 3] end.

(* Gray helpers as elaborated, on w-bit values *)
Definition k_gray (w x : Z) : list Z := [gray_enc x; gray_dec w x].

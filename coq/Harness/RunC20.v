(* RunC20.v — executable wrappers (model answers as lists of integers) for the C20 cases. *)
From Coq Require Import ZArith List Bool.
From V.Model Require Export Bits Format.
From V.Harness Require Import Run.
Import ListNotations.
Open Scope Z_scope.

(* a text is reported as [number of code points; the code points packed in base 2^21, first one most significant]
   (injective for code points < 2^21; keeps the generated case files small) *)
Definition pack (l : list Z) : Z := fold_left (fun acc c => Z.shiftl acc 21 + c) l 0.
Definition packl (l : list Z) : list Z := [zlen l; pack l].

(* Format("{:<spec>}", Signal(Shape(w, sg))): [0] rejected (ValueError) | 1 :: the dict of _parse_format_spec *)
Definition k_spec (s : list Z) (w : Z) (sg : bool) : list Z :=
  match parse_spec s (Sh w sg) with
  | Some sp => 1 :: spec_dict sp
  | None => [0]
  end.

(* format(v, spec) for each v: [0] rejected | 1 :: for each value (packed text) or [-1] when Python raises *)
Definition k_fmt (s : list Z) (w : Z) (sg : bool) (vs : list Z) : list Z :=
  match parse_spec s (Sh w sg) with
  | Some sp =>
      1 :: flat_map (fun v => match py_format sp v with
                              | Some t => packl t
                              | None => [-1]
                              end) vs
  | None => [0]
  end.

(* a whole simulation: packed stdout ++ [code; step index] ++ packed exception text;  [-2] = ValueError at construction *)
Definition k_sim (sigs : list shape) (pos : bool) (p : prog) (steps : list step) : list Z :=
  if prog_ok sigs p then
    match run_steps sigs pos p steps (init_env sigs) false 0 [] with
    | (Cont out, idx) => packl out ++ [0; idx]
    | (Stop out c msg, idx) => packl out ++ [c; idx] ++ packl msg
    end
  else [-2].

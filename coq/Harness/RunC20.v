(* RunC20.v — executable wrappers (model answers as lists of integers) for the C20 cases. *)
From Coq Require Import ZArith List Bool.
From V.Model Require Export Bits Format.
From V.Harness Require Import Run.
Import ListNotations.
Open Scope Z_scope.

(* a text is reported as  number of code points :: code points *)
Definition packl (l : list Z) : list Z := zlen l :: l.

(* Format("{:<spec>}", Signal(Shape(w, sg))): [0] rejected (ValueError) | 1 :: the dict of _parse_format_spec *)
Definition k_spec (s : list Z) (w : Z) (sg : bool) : list Z :=
  match parse_spec s (Sh w sg) with
  | Some sp => 1 :: spec_dict sp
  | None => [0]
  end.

(* format(v, spec) for each v: [0] rejected | 1 :: for each value (length :: text) or [-1] when Python raises *)
Definition k_fmt (s : list Z) (w : Z) (sg : bool) (vs : list Z) : list Z :=
  match parse_spec s (Sh w sg) with
  | Some sp =>
      1 :: flat_map (fun v => match py_format sp v with
                              | Some t => packl t
                              | None => [-1]
                              end) vs
  | None => [0]
  end.

(* a whole simulation: [code; step index] ++ stdout (length :: text) ++ exception text (length :: text);  [-2] = ValueError at construction *)
Definition k_sim (sigs : list shape) (pos : bool) (p : prog) (steps : list step) : list Z :=
  if prog_ok sigs p then
    match run_steps sigs pos p steps (init_env sigs) false 0 [] with
    | (Cont out, idx) => [0; idx] ++ packl out
    | (Stop out c msg, idx) => [c; idx] ++ packl out ++ packl msg
    end
  else [-2].

(* FORMAT parameter of the $print cell emitted for  Print(Format("x{{" "{:<spec>}", Signal(Shape(w, sg)))):
   [-2] ValueError at construction | [0] NotImplementedError | 1 :: code points of the FORMAT string *)
Definition k_rtl (s : list Z) (w : Z) (sg : bool) : list Z :=
  if format_ok [Sh w sg] [CField (VSig 0) s] then
    match rtl_format [Sh w sg] [CLit [120; 123]; CField (VSig 0) s; CLit [10]] with
    | Some cs => 1 :: flat_map rchunk_text cs
    | None => [0]
    end
  else [-2].

(* a whole design (several domains, registers, comb process): [code; step index] ++ stdout ++ exception text;
   f7 / bf select the semantics of the unrepaired code for findings F7 and C20-brace-fill *)
Definition k_design (f7 bf : bool) (D : design) (steps : list tstep) : list Z :=
  if design_ok D then
    match run_design f7 bf D steps with
    | (Cont out, idx) => [0; idx] ++ packl out
    | (Stop out c msg, idx) => [c; idx] ++ packl out ++ packl msg
    end
  else [-2].

(* Runner additions of C06 that evaluate GENERATED definitions (coq/Gen/NirGen.v).  Kept apart from RunC06.v so that the
   hand-written model still runs — and can exhibit a failing input — when the regenerated file no longer compiles. *)
From Coq Require Import ZArith List Bool.
From V.Harness Require Import Run.
From V.Harness Require Export RunC06.
Import ListNotations.
Open Scope Z_scope.

(* ---- the TRANSLATED Netlist.check_comb_cycles (Gen/NirGen.v, regenerated from _nir.py) run on the same netlist, given
   as Python cells; [9; 0] = an exception other than CombinationalCycle *)
From V.Gen Require NirGen.
From Coq Require Ascii String.
Definition zstr (cs : list Z) : String.string :=
  fold_right (fun c s => String.String (Ascii.ascii_of_nat (Z.to_nat c)) s) String.EmptyString cs.
Definition gen_code (r : NirGen.result unit) : list Z :=
  match r with
  | NirGen.Ok _ => [0; 0]
  | NirGen.RaiseCycle p => [1; zn (length p)]
  | NirGen.Error => [9; 0]
  | NirGen.Fuel => [3; 0]
  end.
Definition k_cycgen (g : netlist) (pycells : list NirGen.pycell) : list Z :=
  gen_code (NirGen.check_comb_cycles pycells (map (fun p => (NL (fst p), snd p)) (conn g))
                                     (map (fun v => (0, v)) (sigs g)) (S (length (all_nets g)))).
